// Command vcheck is the driver: it instruments the current working tree of the
// repository, builds the worker against the instrumented copy, runs the
// scenarios of one property in parallel worker processes, aggregates their
// results into evidence/<id>.json and prints the verdict.
//
//	vcheck run <prop> [--tier quick|thorough] [--repo DIR] [--jobs N] [--budget SECS]
//	vcheck replay <file> [--repo DIR]
//	vcheck warm [--repo DIR]              (setup: build once so later builds hit the cache)
package main

import (
	"bytes"
	"crypto/sha256"
	"encoding/hex"
	"encoding/json"
	"flag"
	"fmt"
	"os"
	"os/exec"
	"path/filepath"
	"runtime"
	"sort"
	"strconv"
	"strings"
	"sync"
	"time"

	"verif/instr"
)

var (
	verifDir  = "/verif"
	engineDir = "/verif/engine"
)

func goEnv() []string {
	env := os.Environ()
	env = append(env, "GOFLAGS=-mod=mod", "GOPROXY=off", "GOSUMDB=off", "GOTOOLCHAIN=local", "CGO_ENABLED=0")
	return env
}

func die(code int, f string, a ...any) {
	fmt.Fprintf(os.Stderr, "vcheck: "+f+"\n", a...)
	os.Exit(code)
}

type built struct {
	tmp    string
	worker string
	stats  instr.Stats
}

// build instruments repo and builds the worker; the caller removes b.tmp.
func build(repo string) (*built, error) {
	tmp, err := os.MkdirTemp("", "vcheck-")
	if err != nil {
		return nil, err
	}
	res, err := instr.Instrument(repo, tmp)
	if err != nil {
		os.RemoveAll(tmp)
		return nil, fmt.Errorf("instrumentation failed: %w", err)
	}
	args := []string{"build", "-overlay", res.Overlay, "-o", filepath.Join(tmp, "worker")}
	abs, _ := filepath.Abs(repo)
	if os.Getenv("VERIF_COVER") != "" {
		// development aid: statement coverage of the library under the check (GOCOVERDIR=$VERIF_COVER).
		// The cover tool does not read overlays, so the instrumented tree is materialised on disk.
		tree := filepath.Join(tmp, "tree")
		if out, err := exec.Command("cp", "-r", abs, tree).CombinedOutput(); err != nil {
			return nil, fmt.Errorf("cover: %v %s", err, out)
		}
		os.RemoveAll(filepath.Join(tree, ".git"))
		var ov struct{ Replace map[string]string }
		ob, _ := os.ReadFile(res.Overlay)
		json.Unmarshal(ob, &ov)
		for virt, file := range ov.Replace {
			dst := filepath.Join(tree, strings.TrimPrefix(virt, abs))
			os.MkdirAll(filepath.Dir(dst), 0o755)
			data, _ := os.ReadFile(file)
			os.WriteFile(dst, data, 0o644)
		}
		args = []string{"build", "-o", filepath.Join(tmp, "worker"), "-cover", "-coverpkg=all"}
		abs = tree
	}
	if abs != "/repo" {
		// alternative module file with the replace directive pointing at the other tree
		gm, err := os.ReadFile(filepath.Join(engineDir, "go.mod"))
		if err != nil {
			return nil, err
		}
		gm = bytes.ReplaceAll(gm, []byte("=> /repo"), []byte("=> "+abs))
		os.WriteFile(filepath.Join(tmp, "go.mod"), gm, 0o644)
		gs, _ := os.ReadFile(filepath.Join(engineDir, "go.sum"))
		os.WriteFile(filepath.Join(tmp, "go.sum"), gs, 0o644)
		args = append(args, "-modfile="+filepath.Join(tmp, "go.mod"))
	}
	args = append(args, "./worker")
	cmd := exec.Command("go", args...)
	cmd.Dir = engineDir
	cmd.Env = goEnv()
	out, err := cmd.CombinedOutput()
	if err != nil {
		os.RemoveAll(tmp)
		return nil, fmt.Errorf("building the worker against the instrumented tree failed: %v\n%s", err, out)
	}
	return &built{tmp: tmp, worker: filepath.Join(tmp, "worker"), stats: res.Stats}, nil
}

type bounds struct {
	P int `json:"p"`
	F int `json:"f"`
	D int `json:"d"`
}

func (b bounds) String() string {
	s := func(v int) string {
		if v < 0 {
			return "inf"
		}
		return strconv.Itoa(v)
	}
	return "<" + s(b.P) + "," + s(b.F) + "," + s(b.D) + ">"
}

type jobInfo struct {
	Index      int            `json:"index"`
	Name       string         `json:"name"`
	Bounds     bounds         `json:"bounds"`
	Params     map[string]any `json:"params,omitempty"`
	MemLimitMB int            `json:"mem_limit_mb,omitempty"`
	Seq        bool           `json:"seq,omitempty"`
}

type violation struct {
	Property string          `json:"property"`
	Scenario string          `json:"scenario"`
	Params   json.RawMessage `json:"params,omitempty"`
	Bounds   bounds          `json:"bounds"`
	Rule     string          `json:"rule"`
	Msg      string          `json:"msg"`
	Choices  []int           `json:"choices"`
	Log      []string        `json:"log,omitempty"`
	Outcome  string          `json:"outcome,omitempty"`
	Detail   string          `json:"detail,omitempty"`
	Stack    string          `json:"stack,omitempty"`
	Input    string          `json:"input,omitempty"`
	Repro    string          `json:"repro,omitempty"`
	Blocked  []string        `json:"blocked,omitempty"`
	Tier     string          `json:"tier,omitempty"`
}

type result struct {
	Scenario    string          `json:"scenario"`
	Params      json.RawMessage `json:"params,omitempty"`
	Bounds      bounds          `json:"bounds"`
	Execs       int             `json:"execs"`
	Nodes       int             `json:"nodes"`
	Steps       int             `json:"steps"`
	MaxPoints   int             `json:"max_points"`
	Cut         bool            `json:"cut"`
	Capped      bool            `json:"capped"`
	Outcomes    []string        `json:"outcomes"`
	Nontrivial  []string        `json:"nontrivial"`
	RuleHits    map[string]int  `json:"rule_hits,omitempty"`
	Violations  []violation     `json:"violations,omitempty"`
	Sample      json.RawMessage `json:"sample,omitempty"`
	Replayed    int             `json:"replayed"`
	EngineError string          `json:"engine_error,omitempty"`
	WallS       float64         `json:"wall_s"`
	Seq         bool            `json:"seq,omitempty"`
	Extra       map[string]any  `json:"extra,omitempty"`
}

type knownFinding struct {
	ID       string `json:"id"`
	Property string `json:"property"`
	Status   string `json:"status"` // "open" or "fixed"
	Rule     string `json:"rule"`
	Contains string `json:"contains"` // substring of the violation message identifying the failing call site / input / history
	Scenario string `json:"scenario,omitempty"`
	What     string `json:"what"`
	Commit   string `json:"commit,omitempty"`
}

func loadKnown() []knownFinding {
	b, err := os.ReadFile(filepath.Join(verifDir, "known_findings.json"))
	if err != nil {
		return nil
	}
	var f struct {
		Findings []knownFinding `json:"findings"`
	}
	if json.Unmarshal(b, &f) != nil {
		die(2, "known_findings.json does not parse")
	}
	return f.Findings
}

func matchKnown(kf []knownFinding, v violation) *knownFinding {
	for i := range kf {
		k := &kf[i]
		if k.Status != "open" || k.Property != v.Property {
			continue
		}
		if k.Rule != "" && k.Rule != v.Rule {
			continue
		}
		if k.Contains != "" && !strings.Contains(v.Msg+" "+v.Input, k.Contains) {
			continue
		}
		if k.Scenario != "" && !strings.Contains(v.Scenario, k.Scenario) {
			continue
		}
		return k
	}
	return nil
}

func runWorker(worker string, mem int, timeout time.Duration, args ...string) ([]byte, []byte, error) {
	var cmd *exec.Cmd
	if mem > 0 {
		sh := fmt.Sprintf("ulimit -v %d; exec %s %s", mem*1024, worker, strings.Join(args, " "))
		cmd = exec.Command("sh", "-c", sh)
	} else {
		cmd = exec.Command(worker, args...)
	}
	cmd.Env = append(os.Environ(), "GOMAXPROCS=1", "GOTRACEBACK=single")
	if d := os.Getenv("VERIF_COVER"); d != "" {
		cmd.Env = append(cmd.Env, "GOCOVERDIR="+d)
	}
	var so, se bytes.Buffer
	cmd.Stdout, cmd.Stderr = &so, &se
	if err := cmd.Start(); err != nil {
		return nil, nil, err
	}
	done := make(chan error, 1)
	go func() { done <- cmd.Wait() }()
	select {
	case err := <-done:
		return so.Bytes(), se.Bytes(), err
	case <-time.After(timeout):
		cmd.Process.Kill()
		<-done
		return so.Bytes(), se.Bytes(), fmt.Errorf("worker watchdog: no result after %v", timeout)
	}
}

func main() {
	if len(os.Args) < 2 {
		die(2, "usage: vcheck run|replay|warm ...")
	}
	if d := os.Getenv("VERIF_DIR"); d != "" {
		verifDir = d
		engineDir = filepath.Join(d, "engine")
	}
	switch os.Args[1] {
	case "run":
		cmdRun(os.Args[2:])
	case "replay":
		cmdReplay(os.Args[2:])
	case "warm":
		fs := flag.NewFlagSet("warm", flag.ExitOnError)
		repo := fs.String("repo", defaultRepo(), "repository")
		fs.Parse(os.Args[2:])
		b, err := build(*repo)
		if err != nil {
			die(2, "%v", err)
		}
		os.RemoveAll(b.tmp)
		fmt.Printf("warm: instrumented %d files (%d go, %d send, %d recv, %d select, %d map-range, %d ctx.Err, %d cancel calls)\n", b.stats.Files, b.stats.GoStmts, b.stats.Sends, b.stats.Recvs, b.stats.Selects, b.stats.MapRanges, b.stats.CtxErrs, b.stats.CtxCancels)
	default:
		die(2, "unknown command %s", os.Args[1])
	}
}

func defaultRepo() string {
	if r := os.Getenv("VERIF_REPO"); r != "" {
		return r
	}
	return "/repo"
}

func cmdReplay(args []string) {
	fs := flag.NewFlagSet("replay", flag.ExitOnError)
	repo := fs.String("repo", defaultRepo(), "repository")
	if len(args) < 1 {
		die(2, "usage: vcheck replay <file>")
	}
	file := args[0]
	fs.Parse(args[1:])
	b, err := build(*repo)
	if err != nil {
		die(2, "%v", err)
	}
	defer os.RemoveAll(b.tmp)
	cmd := exec.Command(b.worker, "replay", file)
	cmd.Stdout, cmd.Stderr = os.Stdout, os.Stderr
	err = cmd.Run()
	os.RemoveAll(b.tmp)
	if err != nil {
		os.Exit(1)
	}
}

func cmdRun(args []string) {
	if len(args) < 1 {
		die(2, "usage: vcheck run <prop> [flags]")
	}
	prop := args[0]
	fs := flag.NewFlagSet("run", flag.ExitOnError)
	tier := fs.String("tier", "", "quick or thorough")
	repo := fs.String("repo", defaultRepo(), "repository")
	njobs := fs.Int("jobs", 0, "parallel workers (default: number of CPUs)")
	budget := fs.Float64("budget", 0, "wall-clock budget in seconds for the exploration (default by tier)")
	only := fs.String("only", "", "run only scenarios whose name contains this string")
	verbose := fs.Bool("v", false, "print per-scenario results")
	fs.Parse(args[1:])
	if *tier == "" {
		*tier = os.Getenv("VERIF_TIER")
	}
	if *tier != "thorough" {
		*tier = "quick"
	}
	seed := 0
	if s := os.Getenv("VERIF_SEED"); s != "" {
		seed, _ = strconv.Atoi(s)
	}
	if *njobs <= 0 {
		*njobs = runtime.NumCPU()
	}
	if *budget <= 0 {
		if *tier == "quick" {
			*budget = 240
		} else {
			*budget = 1500
		}
	}
	t0 := time.Now()
	b, err := build(*repo)
	if err != nil {
		die(2, "%v", err)
	}
	defer os.RemoveAll(b.tmp)
	buildS := time.Since(t0).Seconds()

	if tr := os.Getenv("VERIF_TRACE"); tr != "" {
		out, se, _ := runWorker(b.worker, 0, time.Minute, "trace", prop, *tier, tr)
		os.Stdout.Write(out)
		os.Stderr.Write(se)
		os.RemoveAll(b.tmp)
		os.Exit(0)
	}
	out, se, err := runWorker(b.worker, 0, time.Minute, "list", prop, *tier)
	if err != nil {
		os.RemoveAll(b.tmp)
		die(2, "listing jobs: %v\n%s", err, se)
	}
	var jobs []jobInfo
	if err := json.Unmarshal(out, &jobs); err != nil {
		os.RemoveAll(b.tmp)
		die(2, "listing jobs: %v", err)
	}
	if *only != "" {
		var f []jobInfo
		for _, j := range jobs {
			if strings.Contains(j.Name, *only) {
				f = append(f, j)
			}
		}
		jobs = f
	}
	// VERIF_SEED only rotates the order in which scenarios are scheduled (matters under a time cap only)
	if seed != 0 && len(jobs) > 0 {
		r := ((seed % len(jobs)) + len(jobs)) % len(jobs)
		jobs = append(jobs[r:], jobs[:r]...)
	}
	deadline := t0.Add(time.Duration(*budget * float64(time.Second)))
	results := make([]*result, len(jobs))
	var engineErrs []string
	var mu sync.Mutex
	var wg sync.WaitGroup
	next := 0
	for w := 0; w < *njobs; w++ {
		wg.Add(1)
		go func() {
			defer wg.Done()
			for {
				mu.Lock()
				i := next
				next++
				mu.Unlock()
				if i >= len(jobs) {
					return
				}
				j := jobs[i]
				remain := time.Until(deadline).Seconds()
				if remain < 1 {
					mu.Lock()
					results[i] = &result{Scenario: j.Name, Bounds: j.Bounds, Capped: true}
					mu.Unlock()
					continue
				}
				out, se, err := runWorker(b.worker, j.MemLimitMB, time.Duration(remain+120)*time.Second,
					"run", prop, *tier, strconv.Itoa(j.Index), fmt.Sprintf("%.0f", remain))
				var r result
				if err != nil || json.Unmarshal(out, &r) != nil {
					// a dead worker: Go fatal errors (out of memory, stack overflow) cannot be recovered in-process
					msg := fmt.Sprintf("worker for scenario %q died: %v; stderr: %s", j.Name, err, tail(string(se), 1500))
					mu.Lock()
					if j.Seq && bytes.Contains(se, []byte("ANNOUNCE ")) && fatalLine(se) != "unknown fatal error" {
						// sequential checks announce each guarded input: the last one killed the worker
						in := lastAnnounce(se)
						results[i] = &result{Scenario: j.Name, Bounds: j.Bounds, Seq: true, Execs: 1, Violations: []violation{{
							Property: prop, Scenario: j.Name, Rule: "G1", Msg: "process died (fatal error) on input " + in + ": " + fatalLine(se), Input: in}}}
					} else {
						engineErrs = append(engineErrs, msg)
						results[i] = &result{Scenario: j.Name, Bounds: j.Bounds, EngineError: msg}
					}
					mu.Unlock()
					continue
				}
				mu.Lock()
				results[i] = &r
				if r.EngineError != "" {
					engineErrs = append(engineErrs, j.Name+": "+r.EngineError)
				}
				mu.Unlock()
				if *verbose {
					fmt.Printf("  %-50s %s execs=%d points<=%d outcomes=%d cut=%v capped=%v viol=%d %.1fs\n", j.Name, j.Bounds, r.Execs, r.MaxPoints, len(r.Outcomes), r.Cut, r.Capped, len(r.Violations), r.WallS)
				}
			}
		}()
	}
	wg.Wait()
	os.RemoveAll(b.tmp)

	// assumption check (both tiers; VERIF_RACEPASS=0 skips it): free-running -race pass of the same kinds of workloads
	var raceInfo map[string]any
	var raceViolation *violation
	if os.Getenv("VERIF_RACEPASS") != "0" {
		if ran, report, w, rerr := racePass(*repo, prop); ran {
			raceInfo = map[string]any{"tests": raceTests[prop], "wall_s": w, "role": "assumption check (sampling): the explorer switches goroutines only at synchronisation operations, which is complete for data-race-free code; not counted as coverage"}
			switch {
			case rerr != nil:
				raceInfo["result"] = "could not run: " + rerr.Error()
			case report != "":
				raceInfo["result"] = "DATA RACE reported"
				raceViolation = &violation{Property: prop, Scenario: "free-running -race pass " + raceTests[prop], Rule: "RACE",
					Msg: "data race reported by the Go race detector: every 'for all interleavings' claim of this property is unsupported: " + raceSummary(report), Detail: tail(report, 6000)}
			default:
				raceInfo["result"] = "no race reported"
			}
		}
	}

	// aggregate
	kf := loadKnown()
	var execs, nodes, steps, replayed, nScen, nCapped, nComplete int
	outcomes := map[string]bool{}
	nontriv := map[string]bool{}
	ruleHits := map[string]int{}
	var samples []any
	var scen []map[string]any
	var unknown []violation
	knownSeen := map[string]string{}
	allSeq := true
	extra := map[string]any{}
	for i, r := range results {
		if r == nil {
			continue
		}
		nScen++
		execs += r.Execs
		nodes += r.Nodes
		steps += r.Steps
		replayed += r.Replayed
		if r.Capped {
			nCapped++
		}
		if !r.Cut && !r.Capped && r.EngineError == "" {
			nComplete++
		}
		if !r.Seq {
			allSeq = false
		}
		for _, o := range r.Outcomes {
			outcomes[r.Scenario+"/"+o] = true
		}
		for _, o := range r.Nontrivial {
			nontriv[r.Scenario+"/"+o] = true
		}
		for k, v := range r.RuleHits {
			ruleHits[k] += v
		}
		for k, v := range r.Extra {
			extra[r.Scenario+": "+k] = v
		}
		if r.Sample != nil && (len(samples) < 3 || (seed != 0 && i == seed%len(results))) {
			samples = append(samples, map[string]any{"scenario": r.Scenario, "case": r.Sample})
		}
		scen = append(scen, map[string]any{"scenario": r.Scenario, "bounds": r.Bounds.String(), "executions": r.Execs,
			"max_choice_points": r.MaxPoints, "distinct_outcomes": len(r.Outcomes),
			"complete_all_interleavings": !r.Cut && !r.Capped && !r.Seq, "capped": r.Capped, "wall_s": r.WallS})
		for _, v := range r.Violations {
			v.Tier = *tier
			if k := matchKnown(kf, v); k != nil {
				if _, ok := knownSeen[k.ID]; !ok {
					knownSeen[k.ID] = fmt.Sprintf("%s (%s; scenario %s, rule %s: %s)", k.ID, k.What, v.Scenario, v.Rule, v.Msg)
				}
				continue
			}
			unknown = append(unknown, v)
		}
	}
	if raceViolation != nil {
		raceViolation.Tier = *tier
		if k := matchKnown(kf, *raceViolation); k != nil {
			knownSeen[k.ID] = fmt.Sprintf("%s (%s)", k.ID, k.What)
		} else {
			unknown = append(unknown, *raceViolation)
		}
	}
	wall := time.Since(t0).Seconds()
	if len(engineErrs) > 0 {
		for _, e := range engineErrs {
			fmt.Fprintf(os.Stderr, "ENGINE-ERROR %s\n", e)
		}
		die(2, "engine errors: no verdict")
	}
	exhaustive := nCapped == 0
	level := "model_checking"
	rule := "E1: every schedule of each closed scenario (real instrumented jrpc2 + scripted peer + environment threads) within <p preemptions, f free-switch deviations, d environment deviations>, DFS in canonical order; an outcome is the canonicalised event log + final state; non-trivial = events of at least two threads interleave or the outcome is not ok; distinct counted per scenario by hash"
	if allSeq {
		rule = "E2: every input of the stated alphabet up to the stated size bound, simplest first, run through the real functions and compared with a reference model; distinct = distinct (input class, outcome class) pairs; non-trivial = not the plain success class"
	}
	cov := map[string]any{
		"states":                        max1(nodes),
		"transitions":                   max1(steps),
		"traces_validated_against_impl": execs,
		"evaluations":                   execs,
		"distinct_nontrivial":           len(nontriv),
		"distinct_outcomes":             len(outcomes),
		"rule":                          rule,
		"samples":                       samples,
		"exhaustive":                    exhaustive,
		"scenarios":                     scen,
		"scenarios_total":               nScen,
		"scenarios_capped":              nCapped,
		"scenarios_complete_all_interleavings": nComplete,
		"rule_hits":                     ruleHits,
		"determinism_replays":           replayed,
		"instrumentation":               b.stats,
		"build_s":                       buildS,
	}
	if len(extra) > 0 {
		cov["extra"] = extra
	}
	if raceInfo != nil {
		cov["race_pass"] = raceInfo
	}
	if len(samples) == 0 {
		cov["samples"] = []any{"(no scenario produced a sample)"}
	}
	var kfLines []string
	for _, l := range knownSeen {
		kfLines = append(kfLines, l)
	}
	sort.Strings(kfLines)
	ev := map[string]any{
		"property_id": prop,
		"tier":        *tier,
		"seed":        seed,
		"level":       level,
		"coverage":    cov,
		"assumptions": []string{
			"the vs shims reproduce the semantics of sync, channels and select (engine litmus tests)",
			"goroutines switch only at synchronisation operations: complete for data-race-free code",
			"behaviour outside the stated scenario alphabets and <p,f,d> bounds is not covered",
		},
		"wall_s":         wall,
		"violations":     len(unknown),
		"known_findings": kfLines,
	}
	// evidence/ describes /repo itself; runs against another tree (mutants, seeds) write elsewhere
	evDir := filepath.Join(verifDir, "evidence")
	if abs, _ := filepath.Abs(*repo); abs != "/repo" {
		evDir = filepath.Join(verifDir, "evidence-other-tree")
	}
	os.MkdirAll(evDir, 0o755)
	eb, _ := json.MarshalIndent(ev, "", " ")
	if err := os.WriteFile(filepath.Join(evDir, prop+".json"), eb, 0o644); err != nil {
		die(2, "writing evidence: %v", err)
	}
	// a per-tier copy, so that a quick run does not erase the record of the last thorough run
	os.MkdirAll(filepath.Join(evDir, "by-tier"), 0o755)
	os.WriteFile(filepath.Join(evDir, "by-tier", prop+"."+*tier+".json"), eb, 0o644)
	for _, l := range kfLines {
		fmt.Printf("KNOWN-FINDING: property=%s %s\n", prop, l)
	}
	fmt.Printf("%s %s: scenarios=%d executions=%d nodes=%d steps=%d distinct_outcomes=%d nontrivial=%d complete=%d capped=%d wall=%.1fs (build %.1fs)\n",
		prop, *tier, nScen, execs, nodes, steps, len(outcomes), len(nontriv), nComplete, nCapped, wall, buildS)
	if len(unknown) > 0 {
		os.MkdirAll(filepath.Join(verifDir, "replays"), 0o755)
		seen := map[string]bool{}
		for _, v := range unknown {
			key := v.Rule + "|" + v.Msg
			if seen[key] {
				continue
			}
			seen[key] = true
			vb, _ := json.MarshalIndent(v, "", " ")
			h := sha256.Sum256(vb)
			path := filepath.Join(verifDir, "replays", fmt.Sprintf("%s-%s.json", prop, hex.EncodeToString(h[:5])))
			os.WriteFile(path, vb, 0o644)
			fmt.Printf("  scenario=%q bounds=%s rule=%s: %s\n", v.Scenario, v.Bounds, v.Rule, v.Msg)
			fmt.Printf("VIOLATION property=%s replay=%s\n", prop, path)
		}
		os.Exit(1)
	}
}

var raceTests = map[string]string{
	"C01": "TestRace_Server", "C03": "TestRace_Server", "C06": "TestRace_Server", "C07": "TestRace_Server", "C08": "TestRace_Server", "C09": "TestRace_Server",
	"C04": "TestRace_Client", "C05": "TestRace_Client", "C10": "TestRace_(Server|Client)",
	"C18": "TestRace_Bridge", "C19": "TestRace_Bridge", "C20": "TestRace_Loop",
	"C02": "TestRace_Codec", "C13": "TestRace_Codec", "C14": "TestRace_Codec",
	"C11": "TestRace_Channel", "C12": "TestRace_Channel",
	"C15": "TestRace_Handler", "C16": "TestRace_Handler", "C17": "TestRace_Handler",
}

// racePass runs the free-running -race workloads that discharge the explorer's
// data-race-freedom assumption for prop. It returns the race report ("" if none).
func racePass(repo, prop string) (ran bool, report string, wall float64, err error) {
	pat, ok := raceTests[prop]
	if !ok {
		return false, "", 0, nil
	}
	t0 := time.Now()
	args := []string{"test", "-race", "-count=1", "-timeout", "180s", "-run", pat}
	abs, _ := filepath.Abs(repo)
	var tmp string
	if abs != "/repo" {
		tmp, _ = os.MkdirTemp("", "vrace-")
		defer os.RemoveAll(tmp)
		gm, _ := os.ReadFile(filepath.Join(engineDir, "go.mod"))
		gm = bytes.ReplaceAll(gm, []byte("=> /repo"), []byte("=> "+abs))
		os.WriteFile(filepath.Join(tmp, "go.mod"), gm, 0o644)
		gs, _ := os.ReadFile(filepath.Join(engineDir, "go.sum"))
		os.WriteFile(filepath.Join(tmp, "go.sum"), gs, 0o644)
		args = append(args, "-modfile="+filepath.Join(tmp, "go.mod"))
	}
	args = append(args, "./racepass/")
	cmd := exec.Command("go", args...)
	cmd.Dir = engineDir
	env := []string{}
	for _, e := range goEnv() {
		if !strings.HasPrefix(e, "CGO_ENABLED=") {
			env = append(env, e)
		}
	}
	cmd.Env = append(env, "CGO_ENABLED=1")
	out, rerr := cmd.CombinedOutput()
	wall = time.Since(t0).Seconds()
	if bytes.Contains(out, []byte("WARNING: DATA RACE")) {
		return true, string(out), wall, nil
	}
	if rerr != nil {
		return true, "", wall, fmt.Errorf("race pass could not run: %v\n%s", rerr, tail(string(out), 2000))
	}
	return true, "", wall, nil
}

func max1(n int) int {
	if n < 1 {
		return 1
	}
	return n
}

// raceSummary names the two access sites of the first reported race.
func raceSummary(report string) string {
	var sites []string
	lines := strings.Split(report, "\n")
	for i, l := range lines {
		t := strings.TrimSpace(l)
		if (strings.HasPrefix(t, "Write at") || strings.HasPrefix(t, "Read at") || strings.HasPrefix(t, "Previous write at") || strings.HasPrefix(t, "Previous read at")) && i+1 < len(lines) {
			sites = append(sites, strings.TrimSpace(lines[i+1]))
			if len(sites) == 2 {
				break
			}
		}
	}
	return strings.Join(sites, " <-> ")
}

func tail(s string, n int) string {
	if len(s) > n {
		return s[len(s)-n:]
	}
	return s
}

func lastAnnounce(se []byte) string {
	lines := strings.Split(string(se), "\n")
	last := ""
	for _, l := range lines {
		if strings.HasPrefix(l, "ANNOUNCE ") {
			last = strings.TrimPrefix(l, "ANNOUNCE ")
		}
	}
	return last
}

func fatalLine(se []byte) string {
	for _, l := range strings.Split(string(se), "\n") {
		if strings.HasPrefix(l, "fatal error:") || strings.HasPrefix(l, "panic:") || strings.HasPrefix(l, "runtime:") {
			return l
		}
	}
	return "unknown fatal error"
}
