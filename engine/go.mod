module verif

go 1.23.0

require (
	github.com/creachadair/jrpc2 v0.0.0-00010101000000-000000000000
	golang.org/x/tools v0.29.0
)

require (
	github.com/creachadair/mds v0.24.2 // indirect
	golang.org/x/mod v0.22.0 // indirect
	golang.org/x/sync v0.13.0 // indirect
)

replace github.com/creachadair/jrpc2 => /repo
