// Package instr rewrites the current working tree of jrpc2 so that every
// synchronisation operation goes through the vs runtime. The output is a set
// of rewritten files plus a `go build -overlay` description; the repository
// itself is never modified.
package instr

import (
	"bytes"
	"encoding/json"
	"fmt"
	"go/ast"
	"go/printer"
	"go/token"
	"go/types"
	"os"
	"path/filepath"
	"strconv"
	"strings"

	"golang.org/x/tools/go/ast/astutil"
	"golang.org/x/tools/go/packages"
)

const (
	vsPath        = "verif/vs"
	vsyncPath     = "verif/vs/vsync"
	vatomicPath   = "verif/vs/vatomic"
	semReal       = "golang.org/x/sync/semaphore"
	modPath       = "github.com/creachadair/jrpc2"
	semVirtualRel = "zzverif/semaphore"
)

// Packages of the module that are instrumented (relative to the module root).
var pkgDirs = []string{".", "channel", "handler", "server", "jhttp"}

// Stats describes what the instrumenter did.
type Stats struct {
	Files      int
	GoStmts    int
	Sends      int
	Recvs      int
	Closes     int
	Selects    int
	ChanRanges int
	MapRanges  int
	CtxErrs    int
	CtxCancels int
	SyncImport int
	Hash       string
}

type rewriter struct {
	fset  *token.FileSet
	info  *types.Info
	selN  int
	usesV bool
	st    *Stats
	errs  []string
	file  string
	// decisions taken in pre-order (children are replaced before parents are visited in post-order)
	mapRange  map[*ast.RangeStmt]bool
	chanRange map[*ast.RangeStmt]bool
	ctxErr    map[*ast.CallExpr]bool
	timeName  string
	ctxCancel map[*ast.CallExpr]bool
}

func id(s string) *ast.Ident { return ast.NewIdent(s) }

func (r *rewriter) vsCall(fn string, args ...ast.Expr) *ast.CallExpr {
	r.usesV = true
	return &ast.CallExpr{Fun: &ast.SelectorExpr{X: id("vs"), Sel: id(fn)}, Args: args}
}

func isRecvExpr(e ast.Expr) (ast.Expr, bool) {
	if p, ok := e.(*ast.ParenExpr); ok {
		return isRecvExpr(p.X)
	}
	if u, ok := e.(*ast.UnaryExpr); ok && u.Op == token.ARROW {
		return u.X, true
	}
	return nil, false
}

func (r *rewriter) typeOf(e ast.Expr) types.Type {
	if r.info == nil {
		return nil
	}
	if tv, ok := r.info.Types[e]; ok {
		return tv.Type
	}
	if idn, ok := e.(*ast.Ident); ok {
		if o := r.info.ObjectOf(idn); o != nil {
			return o.Type()
		}
	}
	return nil
}

func (r *rewriter) isChan(e ast.Expr) bool {
	t := r.typeOf(e)
	if t == nil {
		return false
	}
	_, ok := t.Underlying().(*types.Chan)
	return ok
}

func (r *rewriter) isMap(e ast.Expr) bool {
	t := r.typeOf(e)
	if t == nil {
		return false
	}
	_, ok := t.Underlying().(*types.Map)
	return ok
}

// isCtxErrCall: x.Err() where x implements context.Context. Context state is shared memory that the
// context package synchronises internally (invisible to the scheduler), so reading it is made a
// scheduling point.
func (r *rewriter) isCtxErrCall(c *ast.CallExpr) bool {
	if r.info == nil || len(c.Args) != 0 {
		return false
	}
	se, ok := c.Fun.(*ast.SelectorExpr)
	if !ok || se.Sel.Name != "Err" {
		return false
	}
	t := r.typeOf(se.X)
	if t == nil {
		return false
	}
	ms := types.NewMethodSet(t)
	for _, m := range []string{"Deadline", "Done", "Err", "Value"} {
		found := false
		for i := 0; i < ms.Len(); i++ {
			if ms.At(i).Obj().Name() == m {
				found = true
				break
			}
		}
		if !found {
			return false
		}
	}
	return true
}

// isCancelCall: a call of a function VALUE (variable or field, not a declared function) that is a
// context cancel function: its type is context.CancelFunc / CancelCauseFunc, or it is a func()
// whose name contains "cancel".
func (r *rewriter) isCancelCall(c *ast.CallExpr) bool {
	if r.info == nil {
		return false
	}
	var idn *ast.Ident
	switch f := c.Fun.(type) {
	case *ast.Ident:
		idn = f
	case *ast.SelectorExpr:
		idn = f.Sel
	default:
		return false
	}
	obj, ok := r.info.Uses[idn].(*types.Var)
	if !ok {
		return false
	}
	t := obj.Type()
	if n, ok := t.(*types.Named); ok && n.Obj().Pkg() != nil && n.Obj().Pkg().Path() == "context" &&
		(n.Obj().Name() == "CancelFunc" || n.Obj().Name() == "CancelCauseFunc") {
		return true
	}
	sig, ok := t.Underlying().(*types.Signature)
	if !ok || sig.Params().Len() != 0 || sig.Results().Len() != 0 || len(c.Args) != 0 {
		return false
	}
	return strings.Contains(strings.ToLower(idn.Name), "cancel")
}

func (r *rewriter) isPkgFunc(fun ast.Expr, pkg, name string) bool {
	se, ok := fun.(*ast.SelectorExpr)
	if !ok || se.Sel.Name != name || r.info == nil {
		return false
	}
	x, ok := se.X.(*ast.Ident)
	if !ok {
		return false
	}
	pn, ok := r.info.Uses[x].(*types.PkgName)
	return ok && pn.Imported().Path() == pkg
}

func (r *rewriter) isBuiltin(fun ast.Expr, name string) bool {
	idn, ok := fun.(*ast.Ident)
	if !ok || idn.Name != name {
		return false
	}
	if r.info == nil {
		return true
	}
	_, isB := r.info.Uses[idn].(*types.Builtin)
	return isB
}

func (r *rewriter) rewrite(n ast.Node) ast.Node { return astutil.Apply(n, r.pre, r.post) }
func (r *rewriter) rewriteExpr(e ast.Expr) ast.Expr {
	if e == nil {
		return nil
	}
	return r.rewrite(e).(ast.Expr)
}
func (r *rewriter) rewriteStmts(l []ast.Stmt) []ast.Stmt {
	b := r.rewrite(&ast.BlockStmt{List: l}).(*ast.BlockStmt)
	return b.List
}

// forbidden constructs: the scheduler cannot control them, so an edited tree
// that introduces one is rejected instead of being explored unsoundly.
var forbidden = map[string]map[string]bool{
	"time":      {"Tick": true, "NewTicker": true},
	"os/signal": {"Notify": true, "NotifyContext": true},
	"net":       {"Dial": true, "Listen": true, "DialTimeout": true},
	"context":   {"WithTimeout": true, "WithDeadline": true, "WithTimeoutCause": true, "WithDeadlineCause": true},
}

func (r *rewriter) checkForbidden(se *ast.SelectorExpr) {
	if r.info == nil {
		return
	}
	x, ok := se.X.(*ast.Ident)
	if !ok {
		return
	}
	pn, ok := r.info.Uses[x].(*types.PkgName)
	if !ok {
		return
	}
	if m := forbidden[pn.Imported().Path()]; m != nil && m[se.Sel.Name] {
		r.errs = append(r.errs, fmt.Sprintf("%s: unsupported construct %s.%s (the scheduler cannot control it)",
			r.fset.Position(se.Pos()), pn.Imported().Path(), se.Sel.Name))
	}
}

func (r *rewriter) pre(c *astutil.Cursor) bool {
	switch n := c.Node().(type) {
	case *ast.SelectStmt:
		c.Replace(r.rewriteSelect(n))
		return false
	case *ast.RangeStmt:
		if r.isMap(n.X) {
			r.mapRange[n] = true
		} else if r.isChan(n.X) {
			r.chanRange[n] = true
		}
	case *ast.SelectorExpr:
		r.checkForbidden(n)
	case *ast.CallExpr:
		if r.isCtxErrCall(n) {
			r.ctxErr[n] = true
		} else if r.isCancelCall(n) {
			r.ctxCancel[n] = true
		}
	case *ast.AssignStmt:
		// v, ok := <-ch   /   v, ok = <-ch
		if len(n.Lhs) == 2 && len(n.Rhs) == 1 {
			if ch, ok := isRecvExpr(n.Rhs[0]); ok {
				r.st.Recvs++
				n.Rhs[0] = r.vsCall("Recv2", r.rewriteExpr(ch))
				for i := range n.Lhs {
					n.Lhs[i] = r.rewriteExpr(n.Lhs[i])
				}
				return false
			}
		}
	case *ast.ValueSpec:
		// var v, ok = <-ch
		if len(n.Names) == 2 && len(n.Values) == 1 {
			if ch, ok := isRecvExpr(n.Values[0]); ok {
				r.st.Recvs++
				n.Values[0] = r.vsCall("Recv2", r.rewriteExpr(ch))
				return false
			}
		}
	}
	return true
}

func (r *rewriter) post(c *astutil.Cursor) bool {
	switch n := c.Node().(type) {
	case *ast.SelectorExpr:
		// the type time.Timer (a field or variable holding a timer) becomes vs.Timer
		if x, ok := n.X.(*ast.Ident); ok && n.Sel.Name == "Timer" && r.info != nil {
			if pn, ok := r.info.Uses[x].(*types.PkgName); ok && pn.Imported().Path() == "time" {
				r.timeName = x.Name
				r.usesV = true
				c.Replace(&ast.SelectorExpr{X: id("vs"), Sel: id("Timer")})
			}
		}
	case *ast.GoStmt:
		r.st.GoStmts++
		c.Replace(r.rewriteGo(n))
	case *ast.RangeStmt:
		if r.chanRange[n] {
			r.st.ChanRanges++
			c.Replace(r.rewriteChanRange(n))
		} else if r.mapRange[n] {
			r.st.MapRanges++
			c.Replace(r.rewriteMapRange(n))
		}
	case *ast.SendStmt:
		r.st.Sends++
		c.Replace(&ast.ExprStmt{X: r.vsCall("Send", n.Chan, n.Value)})
	case *ast.UnaryExpr:
		if n.Op == token.ARROW {
			r.st.Recvs++
			c.Replace(r.vsCall("Recv", n.X))
		}
	case *ast.CallExpr:
		if len(n.Args) == 1 && r.isBuiltin(n.Fun, "close") {
			r.st.Closes++
			c.Replace(r.vsCall("Close", n.Args[0]))
		} else if r.isPkgFunc(n.Fun, "time", "Sleep") && len(n.Args) == 1 {
			// a sleeping goroutine may be overtaken by any amount of other work: a
			// scheduling point that takes no time is a sound model of it
			r.timeName = n.Fun.(*ast.SelectorExpr).X.(*ast.Ident).Name
			c.Replace(r.vsCall("Sleep", n.Args[0]))
		} else if (r.isPkgFunc(n.Fun, "time", "After") || r.isPkgFunc(n.Fun, "time", "NewTimer")) && len(n.Args) == 1 {
			// timers: see vs.Timer (may fire at any scheduling point once armed)
			r.timeName = n.Fun.(*ast.SelectorExpr).X.(*ast.Ident).Name
			c.Replace(r.vsCall(n.Fun.(*ast.SelectorExpr).Sel.Name, n.Args[0]))
		} else if r.isPkgFunc(n.Fun, "time", "AfterFunc") && len(n.Args) == 2 {
			r.timeName = n.Fun.(*ast.SelectorExpr).X.(*ast.Ident).Name
			c.Replace(r.vsCall("AfterFunc", n.Args...))
		} else if r.isPkgFunc(n.Fun, "context", "AfterFunc") && len(n.Args) == 2 {
			c.Replace(r.vsCall("CtxAfterFunc", n.Args...))
		} else if r.ctxErr[n] {
			r.st.CtxErrs++
			c.Replace(r.vsCall("CtxErr", n.Fun.(*ast.SelectorExpr).X))
		} else if r.ctxCancel[n] {
			r.st.CtxCancels++
			if len(n.Args) == 0 {
				c.Replace(r.vsCall("CtxCancel", n.Fun))
			} else {
				c.Replace(r.vsCall("CtxCancelCause", append([]ast.Expr{n.Fun}, n.Args...)...))
			}
		}
	}
	return true
}

func (r *rewriter) rewriteGo(g *ast.GoStmt) ast.Stmt {
	call := g.Call
	if fl, ok := call.Fun.(*ast.FuncLit); ok && len(call.Args) == 0 {
		return &ast.ExprStmt{X: r.vsCall("Go", fl)}
	}
	// { _vf, _va0.. := fun, args..; vs.Go(func(){ _vf(_va0..) }) } -- evaluated at the go statement, like Go does
	var lhs, rhs, args []ast.Expr
	lhs = append(lhs, id("_vf"))
	rhs = append(rhs, call.Fun)
	for i, a := range call.Args {
		nm := id("_va" + strconv.Itoa(i))
		lhs = append(lhs, nm)
		rhs = append(rhs, a)
		args = append(args, nm)
	}
	inner := &ast.CallExpr{Fun: id("_vf"), Args: args, Ellipsis: call.Ellipsis}
	return &ast.BlockStmt{List: []ast.Stmt{
		&ast.AssignStmt{Lhs: lhs, Tok: token.DEFINE, Rhs: rhs},
		&ast.ExprStmt{X: r.vsCall("Go", &ast.FuncLit{
			Type: &ast.FuncType{Params: &ast.FieldList{}},
			Body: &ast.BlockStmt{List: []ast.Stmt{&ast.ExprStmt{X: inner}}},
		})},
	}}
}

// for [v] := range ch { body }  =>  for { v, _vok := vs.Recv2(ch); if !_vok { break }; body }
func (r *rewriter) rewriteChanRange(n *ast.RangeStmt) ast.Stmt {
	var lhs ast.Expr = id("_")
	tok := token.DEFINE
	if n.Key != nil {
		lhs = n.Key
		if n.Tok == token.ASSIGN {
			// v = range ch: assign through a temporary
			tmp := id("_vtmp")
			brk := &ast.IfStmt{
				Cond: &ast.UnaryExpr{Op: token.NOT, X: id("_vok")},
				Body: &ast.BlockStmt{List: []ast.Stmt{&ast.BranchStmt{Tok: token.BREAK}}},
			}
			pre := []ast.Stmt{
				&ast.AssignStmt{Lhs: []ast.Expr{tmp, id("_vok")}, Tok: token.DEFINE, Rhs: []ast.Expr{r.vsCall("Recv2", n.X)}},
				brk,
				&ast.AssignStmt{Lhs: []ast.Expr{n.Key}, Tok: token.ASSIGN, Rhs: []ast.Expr{tmp}},
			}
			n.Body.List = append(pre, n.Body.List...)
			return &ast.ForStmt{Body: n.Body}
		}
	}
	pre := []ast.Stmt{
		&ast.AssignStmt{Lhs: []ast.Expr{lhs, id("_vok")}, Tok: tok, Rhs: []ast.Expr{r.vsCall("Recv2", n.X)}},
		&ast.IfStmt{
			Cond: &ast.UnaryExpr{Op: token.NOT, X: id("_vok")},
			Body: &ast.BlockStmt{List: []ast.Stmt{&ast.BranchStmt{Tok: token.BREAK}}},
		},
	}
	n.Body.List = append(pre, n.Body.List...)
	return &ast.ForStmt{Body: n.Body}
}

// for k, v := range m { body }  =>
//
//	{ _vm := m; for _, k := range vs.MapKeys(_vm) { v, _vin := _vm[k]; if !_vin { continue }; body } }
//
// (an entry removed before it is reached is not produced, like Go).
func (r *rewriter) rewriteMapRange(n *ast.RangeStmt) ast.Stmt {
	r.selN++
	mv := id("_vm" + strconv.Itoa(r.selN))
	in := id("_vin" + strconv.Itoa(r.selN))
	key := n.Key
	define := n.Tok == token.DEFINE
	if key == nil {
		key = id("_vk" + strconv.Itoa(r.selN))
		define = true
	} else if ki, ok := key.(*ast.Ident); ok && ki.Name == "_" {
		key = id("_vk" + strconv.Itoa(r.selN))
		define = true
	}
	var val ast.Expr = id("_")
	if n.Value != nil {
		val = n.Value
	}
	var pre []ast.Stmt
	if define {
		pre = append(pre, &ast.AssignStmt{Lhs: []ast.Expr{val, in}, Tok: token.DEFINE,
			Rhs: []ast.Expr{&ast.IndexExpr{X: mv, Index: key}}})
	} else {
		// k, v = range m with pre-declared variables
		tmp := id("_vv" + strconv.Itoa(r.selN))
		pre = append(pre, &ast.AssignStmt{Lhs: []ast.Expr{tmp, in}, Tok: token.DEFINE,
			Rhs: []ast.Expr{&ast.IndexExpr{X: mv, Index: key}}})
		if n.Value != nil {
			pre = append(pre, &ast.AssignStmt{Lhs: []ast.Expr{val}, Tok: token.ASSIGN, Rhs: []ast.Expr{tmp}})
		} else {
			pre = append(pre, &ast.AssignStmt{Lhs: []ast.Expr{id("_")}, Tok: token.ASSIGN, Rhs: []ast.Expr{tmp}})
		}
	}
	pre = append(pre, &ast.IfStmt{
		Cond: &ast.UnaryExpr{Op: token.NOT, X: in},
		Body: &ast.BlockStmt{List: []ast.Stmt{&ast.BranchStmt{Tok: token.CONTINUE}}},
	})
	n.Body.List = append(pre, n.Body.List...)
	loop := &ast.RangeStmt{Key: id("_"), Value: key, Tok: token.DEFINE, X: r.vsCall("MapKeys", mv), Body: n.Body}
	if !define {
		loop.Tok = token.ASSIGN
	}
	return &ast.BlockStmt{List: []ast.Stmt{
		&ast.AssignStmt{Lhs: []ast.Expr{mv}, Tok: token.DEFINE, Rhs: []ast.Expr{n.X}},
		loop,
	}}
}

func (r *rewriter) rewriteSelect(s *ast.SelectStmt) ast.Stmt {
	r.st.Selects++
	r.selN++
	my := r.selN
	sel := id("_vsel" + strconv.Itoa(my))
	var setup, clauses []ast.Stmt
	hasDefault := false
	idx := 0
	for _, cl := range s.Body.List {
		cc := cl.(*ast.CommClause)
		body := r.rewriteStmts(cc.Body)
		if cc.Comm == nil {
			hasDefault = true
			clauses = append(clauses, &ast.CaseClause{List: nil, Body: body})
			continue
		}
		caseLit := &ast.BasicLit{Kind: token.INT, Value: strconv.Itoa(idx)}
		switch cm := cc.Comm.(type) {
		case *ast.SendStmt:
			setup = append(setup, &ast.ExprStmt{X: r.vsCall("CaseSend", sel, r.rewriteExpr(cm.Chan), r.rewriteExpr(cm.Value))})
		case *ast.ExprStmt:
			ch, _ := isRecvExpr(cm.X)
			setup = append(setup, &ast.ExprStmt{X: r.vsCall("CaseRecv", sel, r.rewriteExpr(ch))})
		case *ast.AssignStmt:
			ch, _ := isRecvExpr(cm.Rhs[0])
			cell := id(fmt.Sprintf("_vcell%d_%d", my, idx))
			setup = append(setup, &ast.AssignStmt{Lhs: []ast.Expr{cell}, Tok: token.DEFINE, Rhs: []ast.Expr{r.vsCall("CaseRecv", sel, r.rewriteExpr(ch))}})
			rhs := []ast.Expr{&ast.SelectorExpr{X: cell, Sel: id("Val")}}
			if len(cm.Lhs) == 2 {
				rhs = append(rhs, &ast.SelectorExpr{X: cell, Sel: id("OK")})
			}
			lhs := make([]ast.Expr, len(cm.Lhs))
			for i := range cm.Lhs {
				lhs[i] = r.rewriteExpr(cm.Lhs[i])
			}
			body = append([]ast.Stmt{&ast.AssignStmt{Lhs: lhs, Tok: cm.Tok, Rhs: rhs}}, body...)
			if cm.Tok == token.DEFINE {
				// avoid "declared and not used" when the case body ignores the variable
				for _, l := range lhs {
					if li, ok := l.(*ast.Ident); ok && li.Name != "_" {
						body = append(body[:1:1], append([]ast.Stmt{&ast.AssignStmt{Lhs: []ast.Expr{id("_")}, Tok: token.ASSIGN, Rhs: []ast.Expr{id(li.Name)}}}, body[1:]...)...)
					}
				}
			}
		}
		clauses = append(clauses, &ast.CaseClause{List: []ast.Expr{caseLit}, Body: body})
		idx++
	}
	hd := "false"
	if hasDefault {
		hd = "true"
	}
	init := &ast.AssignStmt{Lhs: []ast.Expr{sel}, Tok: token.DEFINE, Rhs: []ast.Expr{r.vsCall("NewSelect", id(hd))}}
	if !hasDefault {
		clauses = append(clauses, &ast.CaseClause{List: nil, Body: []ast.Stmt{&ast.ExprStmt{X: &ast.CallExpr{Fun: id("panic"), Args: []ast.Expr{&ast.BasicLit{Kind: token.STRING, Value: `"vs: select chose no case"`}}}}}})
	}
	sw := &ast.SwitchStmt{Tag: &ast.CallExpr{Fun: &ast.SelectorExpr{X: sel, Sel: id("Wait")}}, Body: &ast.BlockStmt{List: clauses}}
	list := append([]ast.Stmt{init}, setup...)
	list = append(list, sw)
	return &ast.BlockStmt{List: list}
}

// Result of an instrumentation run.
type Result struct {
	Overlay string // path of overlay.json
	Stats   Stats
}

// Instrument loads the jrpc2 packages of repoDir (typed), rewrites them into
// outDir and writes outDir/overlay.json. extra maps additional overlay entries
// (absolute path -> replacement file), applied before instrumentation is read
// (used to layer candidate patches without touching the repository).
func Instrument(repoDir, outDir string) (*Result, error) {
	repoDir, _ = filepath.Abs(repoDir)
	cfg := &packages.Config{
		Mode: packages.NeedName | packages.NeedFiles | packages.NeedCompiledGoFiles | packages.NeedSyntax |
			packages.NeedTypes | packages.NeedTypesInfo | packages.NeedImports,
		Dir: repoDir,
		Env: append(os.Environ(), "GOFLAGS=-mod=mod", "GOPROXY=off", "GOSUMDB=off", "GOTOOLCHAIN=local"),
	}
	var patterns []string
	for _, d := range pkgDirs {
		if d == "." {
			patterns = append(patterns, modPath)
		} else {
			patterns = append(patterns, modPath+"/"+d)
		}
	}
	patterns = append(patterns, semReal)
	pkgs, err := packages.Load(cfg, patterns...)
	if err != nil {
		return nil, fmt.Errorf("loading packages: %w", err)
	}
	var loadErrs []string
	for _, p := range pkgs {
		for _, e := range p.Errors {
			loadErrs = append(loadErrs, e.Error())
		}
	}
	if len(loadErrs) > 0 {
		return nil, fmt.Errorf("the repository does not type-check:\n  %s", strings.Join(loadErrs, "\n  "))
	}
	res := &Result{}
	overlay := map[string]string{}
	var allErrs []string
	for _, p := range pkgs {
		for i, f := range p.Syntax {
			src := p.CompiledGoFiles[i]
			if strings.HasSuffix(src, "_test.go") {
				continue
			}
			r := &rewriter{fset: p.Fset, info: p.TypesInfo, st: &res.Stats, file: src,
				mapRange: map[*ast.RangeStmt]bool{}, chanRange: map[*ast.RangeStmt]bool{},
				ctxErr: map[*ast.CallExpr]bool{}, ctxCancel: map[*ast.CallExpr]bool{}}
			out, err := r.file2(f, p.PkgPath == semReal)
			if err != nil {
				return nil, fmt.Errorf("%s: %w", src, err)
			}
			allErrs = append(allErrs, r.errs...)
			var virt string
			if p.PkgPath == semReal {
				virt = filepath.Join(repoDir, semVirtualRel, filepath.Base(src))
			} else {
				virt = src
			}
			name := strings.ReplaceAll(strings.TrimPrefix(strings.TrimPrefix(virt, repoDir), "/"), "/", "__")
			dst := filepath.Join(outDir, name)
			if err := os.WriteFile(dst, out, 0o644); err != nil {
				return nil, err
			}
			overlay[virt] = dst
			res.Stats.Files++
		}
	}
	if len(allErrs) > 0 {
		return nil, fmt.Errorf("unsupported constructs:\n  %s", strings.Join(allErrs, "\n  "))
	}
	b, _ := json.MarshalIndent(map[string]any{"Replace": overlay}, "", " ")
	res.Overlay = filepath.Join(outDir, "overlay.json")
	if err := os.WriteFile(res.Overlay, b, 0o644); err != nil {
		return nil, err
	}
	return res, nil
}

func (r *rewriter) file2(f *ast.File, isSem bool) ([]byte, error) {
	// keep build constraints and //go: directives, drop every other comment (moved nodes would drag them around)
	var keep []*ast.CommentGroup
	for _, cg := range f.Comments {
		var kl []*ast.Comment
		for _, c := range cg.List {
			if strings.HasPrefix(c.Text, "//go:") || strings.HasPrefix(c.Text, "// +build") {
				kl = append(kl, c)
			}
		}
		if len(kl) > 0 && cg.End() < f.Package {
			keep = append(keep, &ast.CommentGroup{List: kl})
		}
	}
	f.Comments = keep
	f.Doc = nil
	ast.Inspect(f, func(n ast.Node) bool {
		switch d := n.(type) {
		case *ast.FuncDecl:
			d.Doc = nil
		case *ast.GenDecl:
			d.Doc = nil
		case *ast.Field:
			d.Doc, d.Comment = nil, nil
		case *ast.ValueSpec:
			d.Doc, d.Comment = nil, nil
		case *ast.TypeSpec:
			d.Doc, d.Comment = nil, nil
		case *ast.ImportSpec:
			d.Doc, d.Comment = nil, nil
		}
		return true
	})
	f = r.rewrite(f).(*ast.File)
	for _, im := range f.Imports {
		path, _ := strconv.Unquote(im.Path.Value)
		switch path {
		case "sync":
			r.st.SyncImport++
			im.Path.Value = strconv.Quote(vsyncPath)
			if im.Name == nil {
				im.Name = id("sync")
			}
		case "sync/atomic":
			im.Path.Value = strconv.Quote(vatomicPath)
			if im.Name == nil {
				im.Name = id("atomic")
			}
		case semReal:
			im.Path.Value = strconv.Quote(modPath + "/" + semVirtualRel)
		}
	}
	if r.usesV {
		astutil.AddNamedImport(r.fset, f, "vs", vsPath)
	}
	if r.timeName != "" {
		// keep the import of package time used when its only use was the Sleep call
		f.Decls = append(f.Decls, &ast.GenDecl{Tok: token.VAR, Specs: []ast.Spec{&ast.ValueSpec{
			Names: []*ast.Ident{id("_")}, Type: &ast.SelectorExpr{X: id(r.timeName), Sel: id("Duration")}}}})
	}
	var buf bytes.Buffer
	cfg := printer.Config{Mode: printer.UseSpaces | printer.TabIndent | printer.SourcePos, Tabwidth: 8}
	if err := cfg.Fprint(&buf, r.fset, f); err != nil {
		return nil, err
	}
	out := buf.String()
	if isSem {
		out = strings.Replace(out, `package semaphore // import "golang.org/x/sync/semaphore"`, "package semaphore", 1)
	}
	return []byte(out), nil
}
