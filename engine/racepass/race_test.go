// Package racepass is the free-running data-race pass: the same kinds of workloads the
// scheduler-controlled scenarios use, but against the UN-instrumented library with real
// goroutines, built with -race. The cooperative scheduler switches goroutines only at
// synchronisation operations, which is complete only for data-race-free code; this pass
// discharges that assumption (it samples schedules and is never counted as coverage).
package racepass

import (
	"bufio"
	"io"
	"context"
	"encoding/json"
	"fmt"
	"net/http"
	"net/http/httptest"
	"strings"
	"sync"
	"testing"
	"time"

	"github.com/creachadair/jrpc2"
	"github.com/creachadair/jrpc2/channel"
	"github.com/creachadair/jrpc2/handler"
	"github.com/creachadair/jrpc2/jhttp"
	"github.com/creachadair/jrpc2/server"
)

func methods() handler.Map {
	return handler.Map{
		"echo": func(ctx context.Context, req *jrpc2.Request) (any, error) {
			var v any
			req.UnmarshalParams(&v)
			return v, nil
		},
		"slow": func(ctx context.Context, req *jrpc2.Request) (any, error) {
			select {
			case <-ctx.Done():
				return nil, ctx.Err()
			case <-time.After(200 * time.Microsecond):
				return "slow", nil
			}
		},
		"push": func(ctx context.Context, req *jrpc2.Request) (any, error) {
			srv := jrpc2.ServerFromContext(ctx)
			srv.Notify(ctx, "note", nil)
			cctx, cancel := context.WithTimeout(ctx, 5*time.Millisecond)
			defer cancel()
			srv.Callback(cctx, "cb", nil)
			return "pushed", nil
		},
	}
}

// TestRace_Server: raw peer traffic racing with CancelRequest, Notify, Callback, Stop and restart.
func TestRace_Server(t *testing.T) {
	for iter := 0; iter < 150; iter++ {
		srv := jrpc2.NewServer(methods(), &jrpc2.ServerOptions{Concurrency: 3, AllowPush: true})
		for round := 0; round < 2; round++ {
			cch, sch := channel.Direct()
			srv.Start(sch)
			var wg sync.WaitGroup
			var sendMu sync.Mutex // the peer is one sender: serialise its sends, and never send after its Close
			peerClosed := false
			peerSend := func(m string) {
				sendMu.Lock()
				defer sendMu.Unlock()
				if !peerClosed {
					cch.Send([]byte(m))
				}
			}
			wg.Add(1)
			go func() { // peer reader: answers callbacks, drains everything
				defer wg.Done()
				for {
					msg, err := cch.Recv()
					if err != nil {
						return
					}
					if strings.Contains(string(msg), `"method":"cb"`) {
						go peerSend(`{"jsonrpc":"2.0","id":1,"result":1}`)
					}
				}
			}()
			msgs := []string{
				`{"jsonrpc":"2.0","id":1,"method":"echo","params":[1]}`,
				`[{"jsonrpc":"2.0","id":2,"method":"slow"},{"jsonrpc":"2.0","method":"echo"},{"jsonrpc":"2.0","id":3,"method":"nope"}]`,
				`{"jsonrpc":"2.0","method":"slow"}`,
				`{"jsonrpc":"2.0","id":4,"method":"push"}`,
				`{"jsonrpc":"2.0",`,
				`{"jsonrpc":"2.0","id":2,"method":"echo"}`,
				`{"jsonrpc":"2.0","id":99,"result":"stray"}`,
			}
			var sw sync.WaitGroup
			sw.Add(3)
			go func() {
				defer sw.Done()
				for _, m := range msgs {
					peerSend(m)
				}
			}()
			go func() { defer sw.Done(); srv.CancelRequest("2"); srv.Notify(context.Background(), "n", nil); srv.ServerInfo() }()
			go func() {
				defer sw.Done()
				ctx, cancel := context.WithTimeout(context.Background(), time.Millisecond)
				defer cancel()
				srv.Callback(ctx, "cb", nil)
			}()
			if iter%3 == 0 {
				time.Sleep(time.Duration(iter%7) * 50 * time.Microsecond)
				srv.Stop()
			}
			sw.Wait()
			if iter%3 != 0 {
				time.Sleep(300 * time.Microsecond)
			}
			sendMu.Lock()
			peerClosed = true
			cch.Close()
			sendMu.Unlock()
			srv.WaitStatus()
			wg.Wait()
		}
	}
}

// TestRace_Client: concurrent calls, batches and notifications racing with cancellation, callbacks and Close.
func TestRace_Client(t *testing.T) {
	for iter := 0; iter < 150; iter++ {
		loc := server.NewLocal(methods(), &server.LocalOptions{
			Server: &jrpc2.ServerOptions{Concurrency: 3, AllowPush: true},
			Client: &jrpc2.ClientOptions{
				OnNotify:   func(*jrpc2.Request) {},
				OnCallback: func(context.Context, *jrpc2.Request) (any, error) { return 1, nil },
				OnCancel:   func(*jrpc2.Client, *jrpc2.Response) {},
				OnStop:     func(*jrpc2.Client, error) {},
			},
		})
		var wg sync.WaitGroup
		for k := 0; k < 4; k++ {
			k := k
			wg.Add(1)
			go func() {
				defer wg.Done()
				ctx, cancel := context.WithCancel(context.Background())
				if k == 1 {
					go func() { time.Sleep(time.Duration(iter%5) * 40 * time.Microsecond); cancel() }()
				}
				defer cancel()
				switch k % 4 {
				case 0:
					loc.Client.Call(ctx, "echo", []int{k})
				case 1:
					loc.Client.Call(ctx, "slow", nil)
				case 2:
					loc.Client.Batch(ctx, []jrpc2.Spec{{Method: "echo", Params: []int{1}}, {Method: "echo", Notify: true}, {Method: "push"}})
				case 3:
					loc.Client.Notify(ctx, "slow", nil)
					var out any
					loc.Client.CallResult(ctx, "echo", []int{2}, &out)
				}
			}()
		}
		if iter%2 == 0 {
			time.Sleep(time.Duration(iter%9) * 30 * time.Microsecond)
			loc.Client.IsStopped()
			loc.Close()
		}
		wg.Wait()
		loc.Close()
	}
}

// TestRace_Bridge: concurrent HTTP callers on one Bridge and a Client over jhttp.Channel.
func TestRace_Bridge(t *testing.T) {
	for iter := 0; iter < 60; iter++ {
		b := jhttp.NewBridge(methods(), &jhttp.BridgeOptions{Server: &jrpc2.ServerOptions{Concurrency: 3}})
		hs := httptest.NewServer(b)
		var wg sync.WaitGroup
		for k := 0; k < 4; k++ {
			k := k
			wg.Add(1)
			go func() {
				defer wg.Done()
				body := fmt.Sprintf(`[{"jsonrpc":"2.0","id":1,"method":"echo","params":[%d]},{"jsonrpc":"2.0","method":"echo"},{"jsonrpc":"1.0","id":5}]`, k)
				rsp, err := http.Post(hs.URL, "application/json", strings.NewReader(body))
				if err == nil {
					rsp.Body.Close()
				}
			}()
		}
		ch := jhttp.NewChannel(hs.URL, nil)
		cli := jrpc2.NewClient(ch, nil)
		wg.Add(2)
		go func() { defer wg.Done(); cli.Call(context.Background(), "echo", []int{9}) }()
		go func() { defer wg.Done(); cli.Notify(context.Background(), "echo", nil) }()
		if iter%2 == 0 {
			cli.Close()
		}
		wg.Wait()
		cli.Close()
		hs.Close()
		b.Close()
	}
}

type memAccepter struct {
	ch chan channel.Channel
}

func (a memAccepter) Accept(ctx context.Context) (channel.Channel, error) {
	select {
	case c, ok := <-a.ch:
		if !ok {
			return nil, channel.ErrClosed
		}
		return c, nil
	case <-ctx.Done():
		return nil, channel.ErrClosed
	}
}

// TestRace_Loop: connections, client closes and context cancellation racing in server.Loop.
func TestRace_Loop(t *testing.T) {
	for iter := 0; iter < 100; iter++ {
		acc := memAccepter{ch: make(chan channel.Channel)}
		ctx, cancel := context.WithCancel(context.Background())
		done := make(chan error, 1)
		go func() { done <- server.Loop(ctx, acc, server.Static(methods()), nil) }()
		var wg sync.WaitGroup
		for k := 0; k < 3; k++ {
			wg.Add(1)
			go func() {
				defer wg.Done()
				cch, sch := channel.Direct()
				select {
				case acc.ch <- sch:
				case <-ctx.Done():
					return
				}
				cli := jrpc2.NewClient(cch, nil)
				cli.Call(context.Background(), "echo", []int{1})
				cli.Close()
			}()
		}
		time.Sleep(time.Duration(iter%6) * 60 * time.Microsecond)
		cancel()
		wg.Wait()
		<-done
	}
}

type posArg struct {
	A int    `json:"a"`
	B string `json:"b"`
	C []int  `json:"c"`
}

// TestRace_Handler: ONE handler value of each kind the handler package builds is invoked by many
// goroutines at once (the server's default concurrency does exactly that), and FuncInfo, Args and
// Obj values are used concurrently on separate targets.
func TestRace_Handler(t *testing.T) {
	fi, err := handler.Check(func(ctx context.Context, p posArg) (posArg, error) { return p, nil })
	if err != nil {
		t.Fatal(err)
	}
	fi.SetStrict(true)
	mux := handler.ServiceMap{
		"s": handler.Map{
			"pos":    handler.NewPos(func(ctx context.Context, a int, b string, c []int) (string, error) { return fmt.Sprint(a, b, c), nil }, "a", "b", "c"),
			"strict": fi.Wrap(),
			"st":     handler.New(func(ctx context.Context, p *posArg) (int, error) { return p.A, nil }),
			"arr":    handler.New(func(ctx context.Context, v []string) (int, error) { return len(v), nil }),
			"none":   handler.New(func(ctx context.Context) error { return nil }),
			"req":    handler.New(func(ctx context.Context, req *jrpc2.Request) (any, error) { return req.Method(), nil }),
			"args": handler.New(func(ctx context.Context, req *jrpc2.Request) (any, error) {
				var a int
				var b string
				if err := req.UnmarshalParams(&handler.Args{&a, &b}); err != nil {
					return nil, err
				}
				return handler.Args{a, b}, nil
			}),
			"obj": handler.New(func(ctx context.Context, req *jrpc2.Request) (any, error) {
				var a int
				var b string
				if err := req.UnmarshalParams(&handler.Obj{"a": &a, "b": &b}); err != nil {
					return nil, err
				}
				return handler.Obj{"a": a, "b": b}, nil
			}),
		},
	}
	for iter := 0; iter < 2; iter++ {
		loc := server.NewLocal(mux, &server.LocalOptions{Server: &jrpc2.ServerOptions{Concurrency: 8}})
		var wg sync.WaitGroup
		for k := 0; k < 8; k++ {
			k := k
			wg.Add(1)
			go func() {
				defer wg.Done()
				ctx := context.Background()
				for n := 0; n < 80; n++ {
					var out any
					loc.Client.CallResult(ctx, "s.pos", []any{k, "b", []int{k, n}}, &out)
					loc.Client.CallResult(ctx, "s.pos", map[string]any{"a": k, "c": []int{n}}, &out)
					loc.Client.CallResult(ctx, "s.pos", []any{k}, &out) // wrong length: InvalidParams
					loc.Client.CallResult(ctx, "s.strict", posArg{A: k, B: "x"}, &out)
					loc.Client.CallResult(ctx, "s.strict", []any{k, "x", []int{n}}, &out)
					loc.Client.CallResult(ctx, "s.strict", map[string]any{"a": k, "zz": 1}, &out) // unknown field
					loc.Client.CallResult(ctx, "s.st", posArg{A: k}, &out)
					loc.Client.CallResult(ctx, "s.arr", []string{"a", "b"}, &out)
					loc.Client.CallResult(ctx, "s.none", nil, &out)
					loc.Client.CallResult(ctx, "s.req", []int{1}, &out)
					loc.Client.CallResult(ctx, "s.args", []any{k, "b"}, &out)
					loc.Client.CallResult(ctx, "s.obj", map[string]any{"a": k, "b": "b"}, &out)
					loc.Client.CallResult(ctx, "s.nope", nil, &out)
					loc.Client.CallResult(ctx, "rpc.serverInfo", nil, &out)
					if n%40 == 0 {
						fi.Wrap()
						mux.Names()
					}
				}
			}()
		}
		wg.Wait()
		loc.Close()
	}
}

type slowWC struct {
	mu  sync.Mutex
	buf []byte
}

func (w *slowWC) Write(p []byte) (int, error) {
	// take the bytes in two steps, as a pipe with a slow reader does
	h := len(p) / 2
	w.mu.Lock()
	w.buf = append(w.buf, p[:h]...)
	w.mu.Unlock()
	time.Sleep(20 * time.Microsecond)
	w.mu.Lock()
	w.buf = append(w.buf, p[h:]...)
	w.mu.Unlock()
	return len(p), nil
}
func (w *slowWC) Close() error { return nil }

// TestRace_Channel: several channels made by ONE framing value are used at the same time, each by
// its own sender and receiver (the connections of one server): nothing may be shared between them.
func TestRace_Channel(t *testing.T) {
	framings := map[string]channel.Framing{
		"Line": channel.Line, "Split": channel.Split(0x1e), "Header": channel.Header(""), "HeaderT": channel.Header("a/b"),
		"Strict": channel.StrictHeader("a/b"), "LSP": channel.LSP, "RawJSON": channel.RawJSON,
	}
	for name, f := range framings {
		var wg sync.WaitGroup
		for k := 0; k < 4; k++ {
			k := k
			wg.Add(1)
			go func() {
				defer wg.Done()
				w := &slowWC{}
				out := f(strings.NewReader(""), w)
				var recs []string
				for n := 0; n < 60; n++ {
					rec := fmt.Sprintf(`{"conn":%d,"n":%d,"pad":%q}`, k, n, strings.Repeat("x", (n*37+k*11)%300))
					recs = append(recs, rec)
					if err := out.Send([]byte(rec)); err != nil {
						t.Errorf("%s: Send: %v", name, err)
					}
				}
				in := f(strings.NewReader(string(w.buf)), w)
				for n := range recs {
					if _, err := in.Recv(); err != nil {
						t.Errorf("%s: Recv %d: %v", name, n, err)
						break
					}
				}
				in.Recv()
			}()
		}
		wg.Wait()
	}
	// one connection, both ends sending and receiving at the same time (one sender and one receiver per
	// channel, as the contract allows), with a record beyond 2^24 bytes in each direction
	for name, f := range framings {
		ar, bw := io.Pipe()
		br, aw := io.Pipe()
		ea, eb := f(bufio.NewReaderSize(ar, 1<<20), aw), f(bufio.NewReaderSize(br, 1<<20), bw) // large reads: fewer hand-offs through the pipe
		sizes := []int{10, 1<<24 + 9, 300}
		if name == "Line" || name == "Split" || name == "RawJSON" {
			sizes = []int{10, 70000, 300}
		}
		var wg sync.WaitGroup
		for _, e := range []channel.Channel{ea, eb} {
			e := e
			wg.Add(2)
			go func() {
				defer wg.Done()
				for _, n := range sizes {
					rec := []byte(`{"k":"` + strings.Repeat("x", n) + `"}`) // an object: encoding/json sees the end of a top-level string only with the next byte
					if err := e.Send(rec); err != nil {
						t.Errorf("%s duplex: Send: %v", name, err)
					}
				}
			}()
			go func() {
				defer wg.Done()
				for _, n := range sizes {
					rec, err := e.Recv()
					if err != nil || len(rec) != n+8 {
						t.Errorf("%s duplex: Recv: %d bytes, %v; want %d", name, len(rec), err, n+8)
					}
				}
			}()
		}
		wg.Wait()
		ea.Close()
		eb.Close()
	}
	// the in-memory pair: both directions at once
	a, b := channel.Direct()
	var wg sync.WaitGroup
	for _, p := range [][2]channel.Channel{{a, b}, {b, a}} {
		p := p
		wg.Add(2)
		go func() {
			defer wg.Done()
			for n := 0; n < 200; n++ {
				p[0].Send([]byte(fmt.Sprint(n)))
			}
		}()
		go func() {
			defer wg.Done()
			for n := 0; n < 200; n++ {
				p[1].Recv()
			}
		}()
	}
	wg.Wait()
	a.Close()
	b.Close()
}

// TestRace_Codec: independent servers, clients and the package-level parsing and error helpers
// are used at the same time: nothing at package level may be shared between them.
func TestRace_Codec(t *testing.T) {
	var wg sync.WaitGroup
	for k := 0; k < 6; k++ {
		k := k
		wg.Add(1)
		go func() {
			defer wg.Done()
			ctx := context.Background()
			for n := 0; n < 80; n++ {
				loc := server.NewLocal(methods(), &server.LocalOptions{Server: &jrpc2.ServerOptions{Concurrency: 2, AllowPush: true},
					Client: &jrpc2.ClientOptions{OnCallback: func(context.Context, *jrpc2.Request) (any, error) { return k, nil }}})
				var out any
				loc.Client.CallResult(ctx, "echo", map[string]any{"k": k, "s": "é \x01"}, &out)
				loc.Client.Batch(ctx, []jrpc2.Spec{{Method: "echo", Params: []int{k}}, {Method: "echo\x7f", Notify: true}, {Method: "nope"}})
				loc.Client.Notify(ctx, "echo", []int{n})
				loc.Client.Call(ctx, "push", nil)
				loc.Client.Call(ctx, "rpc.serverInfo", nil)
				loc.Close()
				jrpc2.ParseRequests([]byte(fmt.Sprintf(`[{"jsonrpc":"2.0","id":%d,"method":"m","params":[%d]},{"jsonrpc":"2.0","method":"n"},17, {"id":"x"}]`, k, n)))
				jrpc2.ParseRequests([]byte(` {"jsonrpc":"2.0","id":"a","method":"m"} `))
				jrpc2.ParseRequests([]byte(`{"jsonrpc":`))
				e := jrpc2.Errorf(jrpc2.InvalidParams, "bad %d", k).WithData(map[string]int{"k": k})
				bits, _ := json.Marshal(e)
				var e2 jrpc2.Error
				json.Unmarshal(bits, &e2)
				jrpc2.ErrorCode(fmt.Errorf("wrapped: %w", e))
				jrpc2.ErrorCode(context.Canceled)
				_ = jrpc2.InvalidParams.String()
			}
		}()
	}
	wg.Wait()
}
