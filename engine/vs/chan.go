package vs

import (
	"fmt"
	"reflect"
	"sort"
	"unsafe"
)

// Channel operations. The runtime keeps the state of every channel that
// instrumented code touches (keyed on channel identity); the real channel is
// used only for identity, capacity and so that un-instrumented observers
// (none at the pinned commit) see a close. Channels closed by un-instrumented
// code (ctx.Done()) are detected by a consumption-free peek: instrumented code
// never puts a value into a real channel during an execution.

type chanState struct {
	cap    int
	q      []any
	closed bool
}

type caseDir uint8

const (
	dirRecv caseDir = iota
	dirSend
)

type selCase struct {
	dir  caseDir
	s    *chanState // nil for a nil channel
	peek func() bool
	val  any // value to send
}

// chanOp is the pending channel operation of a parked thread (a plain send or
// receive is a one-case select without default).
type chanOp struct {
	t          *thread
	cases      []selCase
	hasDefault bool
	// set by a rendezvous partner:
	done bool
	idx  int
	val  any
	ok   bool
}

func chanKey[T any](ch chan T) any { return *(*unsafe.Pointer)(unsafe.Pointer(&ch)) }

func stateOf(key any, c int) *chanState {
	s := chans[key]
	if s == nil {
		s = &chanState{cap: c}
		chans[key] = s
	}
	return s
}

func recvCase[T any](ch <-chan T) selCase {
	if ch == nil {
		return selCase{dir: dirRecv}
	}
	key := *(*unsafe.Pointer)(unsafe.Pointer(&ch))
	return selCase{dir: dirRecv, s: stateOf(key, cap(ch)), peek: func() bool {
		select {
		case _, ok := <-ch:
			return !ok
		default:
			return false
		}
	}}
}

func sendCase[T any](ch chan<- T, v T) selCase {
	if ch == nil {
		return selCase{dir: dirSend}
	}
	key := *(*unsafe.Pointer)(unsafe.Pointer(&ch))
	return selCase{dir: dirSend, s: stateOf(key, cap(ch)), val: v}
}

// partners returns the parked operations (other than op) that have a case of
// direction dir on channel s and have not been completed yet.
func partners(op *chanOp, s *chanState, dir caseDir) (out []*chanOp, idx []int) {
	for _, th := range threads {
		p := th.pend
		if p == nil || p == op || p.done || th.done {
			continue
		}
		for i, c := range p.cases {
			if c.s == s && c.dir == dir {
				out = append(out, p)
				idx = append(idx, i)
				break
			}
		}
	}
	return
}

func caseReady(op *chanOp, c selCase) bool {
	if c.s == nil {
		return false
	}
	if c.dir == dirRecv {
		if len(c.s.q) > 0 || c.s.closed || c.peek() {
			return true
		}
		if c.s.cap == 0 {
			p, _ := partners(op, c.s, dirSend)
			return len(p) > 0
		}
		return false
	}
	if c.s.closed {
		return true // will panic, like Go
	}
	if c.s.cap > 0 {
		return len(c.s.q) < c.s.cap
	}
	p, _ := partners(op, c.s, dirRecv)
	return len(p) > 0
}

func (op *chanOp) enabled() bool {
	if op.done || op.hasDefault {
		return true
	}
	for _, c := range op.cases {
		if caseReady(op, c) {
			return true
		}
	}
	return false
}

// perform parks the calling thread on op until it can proceed and carries out
// exactly one case. It returns the index of the case (-1 = default), and for a
// receive the value and ok flag.
func perform(op *chanOp, desc string) (int, any, bool) {
	t := cur
	op.t = t
	t.pend = op
	res := make([]uintptr, 0, len(op.cases)+1)
	for _, c := range op.cases {
		if c.s != nil {
			res = append(res, uintptr(unsafe.Pointer(c.s)))
			if c.dir == dirRecv {
				res = append(res, ResCtx) // a receive may be on a channel closed by un-instrumented code (ctx.Done())
			}
		}
	}
	if len(res) == 0 {
		res = append(res, ResHarness)
	}
	pendingRes = res
	point(op.enabled, desc)
	t.pend = nil
	if op.done { // completed by a rendezvous partner
		return op.idx, op.val, op.ok
	}
	var ready []int
	for i, c := range op.cases {
		if caseReady(op, c) {
			ready = append(ready, i)
		}
	}
	if len(ready) == 0 {
		if !op.hasDefault {
			panic(engineError("channel operation scheduled while not enabled: " + desc))
		}
		return -1, nil, false
	}
	i := ready[0]
	if len(ready) > 1 && SelectChoices {
		i = ready[Choose(len(ready), "select-ready")]
	}
	c := op.cases[i]
	// A non-blocking operation (select with default) on an UNBUFFERED channel succeeds in real Go only if
	// the partner is already parked; a partner whose pending operation has not executed yet may in reality
	// not have arrived. The default answer is the rendezvous; "partner not there yet" (take the default
	// branch) is an environment deviation. This is what makes lost wake-ups of the form
	// `select { case ch <- v: default: }` with an unbuffered ch reachable.
	if op.hasDefault && c.s.cap == 0 && !c.s.closed && len(c.s.q) == 0 && !(c.dir == dirRecv && c.peek()) {
		if Choose(2, "non-blocking rendezvous: partner not parked yet") == 1 {
			return -1, nil, false
		}
	}
	if c.dir == dirRecv {
		if len(c.s.q) > 0 {
			v := c.s.q[0]
			c.s.q = c.s.q[1:]
			return i, v, true
		}
		if c.s.cap == 0 {
			if ps, idx := partners(op, c.s, dirSend); len(ps) > 0 {
				k := 0
				if len(ps) > 1 {
					k = Choose(len(ps), "rendezvous-sender")
				}
				p := ps[k]
				p.done, p.idx = true, idx[k]
				return i, p.cases[idx[k]].val, true
			}
		}
		return i, nil, false // closed
	}
	if c.s.closed {
		panic("send on closed channel")
	}
	if c.s.cap > 0 {
		// A receiver whose pending operation is a receive on this (empty) channel is, in real Go, either
		// already parked (the send is handed to it directly and the buffer stays empty) or has not quite
		// arrived yet (the value is buffered). Both are real timings; buffering is the default answer, the
		// direct hand-off an environment deviation. They differ only for code that looks at the buffer
		// (a non-blocking send) before the receiver runs.
		if len(c.s.q) == 0 {
			if ps, idx := partners(op, c.s, dirRecv); len(ps) > 0 && Choose(2, "buffered send: receiver already parked") == 1 {
				p := ps[0]
				p.done, p.idx, p.val, p.ok = true, idx[0], c.val, true
				return i, nil, false
			}
		}
		c.s.q = append(c.s.q, c.val)
		return i, nil, false
	}
	ps, idx := partners(op, c.s, dirRecv)
	k := 0
	if len(ps) > 1 {
		k = Choose(len(ps), "rendezvous-receiver")
	}
	p := ps[k]
	p.done, p.idx, p.val, p.ok = true, idx[k], c.val, true
	return i, nil, false
}

// Send is `ch <- v`.
func Send[T any](ch chan<- T, v T) {
	if !Active {
		ch <- v
		return
	}
	if aborting {
		return
	}
	perform(&chanOp{cases: []selCase{sendCase(ch, v)}}, "chan send")
}

// Recv2 is `v, ok := <-ch`.
func Recv2[T any](ch <-chan T) (T, bool) {
	var zero T
	if !Active {
		v, ok := <-ch
		return v, ok
	}
	if aborting {
		return zero, false
	}
	_, v, ok := perform(&chanOp{cases: []selCase{recvCase(ch)}}, "chan recv")
	if !ok {
		return zero, false
	}
	if v == nil {
		return zero, true
	}
	return v.(T), true
}

// Recv is `<-ch`.
func Recv[T any](ch <-chan T) T { v, _ := Recv2(ch); return v }

// Close is `close(ch)`.
func Close[T any](ch chan<- T) {
	if !Active {
		close(ch)
		return
	}
	if aborting {
		return
	}
	if ch == nil {
		panic("close of nil channel")
	}
	key := *(*unsafe.Pointer)(unsafe.Pointer(&ch))
	s := stateOf(key, cap(ch))
	pendingRes = []uintptr{uintptr(unsafe.Pointer(s))}
	point(nil, "chan close")
	if s.closed {
		panic("close of closed channel")
	}
	s.closed = true
	close(ch)
}

// Len is len(ch) for a channel.
func Len[T any](ch chan T) int {
	if !Active || aborting {
		return len(ch)
	}
	if ch == nil {
		return 0
	}
	return len(stateOf(chanKey(ch), cap(ch)).q)
}

// RangeChan calls body for every value received until the channel is closed;
// body returns false to break.
func RangeChan[T any](ch <-chan T, body func(T) bool) {
	for {
		v, ok := Recv2(ch)
		if !ok {
			return
		}
		if !body(v) {
			return
		}
	}
}

// ---- select ----

// Sel is a select statement being assembled by instrumented code.
type Sel struct {
	op    chanOp
	cells []func(any, bool)
	real  []func() reflect.SelectCase
}

// NewSelect starts a select.
func NewSelect(hasDefault bool) *Sel { return &Sel{op: chanOp{hasDefault: hasDefault}} }

// RecvCell receives the result of a receive case.
type RecvCell[T any] struct {
	Val T
	OK  bool
}

// CaseRecv adds `case v, ok := <-ch`.
func CaseRecv[T any](sel *Sel, ch <-chan T) *RecvCell[T] {
	cell := &RecvCell[T]{}
	sel.op.cases = append(sel.op.cases, recvCase(ch))
	sel.real = append(sel.real, func() reflect.SelectCase {
		return reflect.SelectCase{Dir: reflect.SelectRecv, Chan: reflect.ValueOf(ch)}
	})
	sel.cells = append(sel.cells, func(v any, ok bool) {
		cell.OK = ok
		if ok && v != nil {
			cell.Val = v.(T)
		}
	})
	return cell
}

// CaseSend adds `case ch <- v`.
func CaseSend[T any](sel *Sel, ch chan<- T, v T) {
	sel.op.cases = append(sel.op.cases, sendCase(ch, v))
	sel.real = append(sel.real, func() reflect.SelectCase {
		return reflect.SelectCase{Dir: reflect.SelectSend, Chan: reflect.ValueOf(ch), Send: reflect.ValueOf(v)}
	})
	sel.cells = append(sel.cells, nil)
}

// Wait blocks until a case can proceed and returns its index (-1 = default).
func (sel *Sel) Wait() int {
	if !Active {
		return sel.waitReal()
	}
	if aborting {
		return -1
	}
	i, v, ok := perform(&sel.op, "select")
	if i >= 0 && sel.cells[i] != nil {
		sel.cells[i](v, ok)
	}
	return i
}

// waitReal runs the select on the real channels (pass-through mode) via reflect.
func (sel *Sel) waitReal() int {
	cases := make([]reflect.SelectCase, 0, len(sel.real)+1)
	for _, mk := range sel.real {
		cases = append(cases, mk())
	}
	if sel.op.hasDefault {
		cases = append(cases, reflect.SelectCase{Dir: reflect.SelectDefault})
	}
	i, v, ok := reflect.Select(cases)
	if i == len(sel.real) {
		return -1
	}
	if sel.cells[i] != nil {
		if ok {
			sel.cells[i](v.Interface(), true)
		} else {
			sel.cells[i](nil, false)
		}
	}
	return i
}

// ---- maps ----

// MapKeys returns the keys of m in the order the rewritten `range` visits them:
// sorted by default; with MapOrderChoices other orders are environment choices.
func MapKeys[M ~map[K]V, K comparable, V any](m M) []K {
	keys := make([]K, 0, len(m))
	for k := range m {
		keys = append(keys, k)
	}
	sort.Slice(keys, func(i, j int) bool { return lessAny(keys[i], keys[j]) })
	if !Active || aborting || !MapOrderChoices || len(keys) < 2 {
		return keys
	}
	perms := orders(len(keys))
	c := Choose(len(perms), fmt.Sprintf("map-order/%d", len(keys)))
	out := make([]K, len(keys))
	for i, j := range perms[c] {
		out[i] = keys[j]
	}
	return out
}

func lessAny(a, b any) bool {
	va, vb := reflect.ValueOf(a), reflect.ValueOf(b)
	switch va.Kind() {
	case reflect.String:
		return va.String() < vb.String()
	case reflect.Int, reflect.Int8, reflect.Int16, reflect.Int32, reflect.Int64:
		return va.Int() < vb.Int()
	case reflect.Uint, reflect.Uint8, reflect.Uint16, reflect.Uint32, reflect.Uint64, reflect.Uintptr:
		return va.Uint() < vb.Uint()
	case reflect.Float32, reflect.Float64:
		return va.Float() < vb.Float()
	}
	return fmt.Sprint(a) < fmt.Sprint(b)
}

var orderCache = map[int][][]int{}

// orders returns the iteration orders offered for a map of n keys: all
// permutations for n <= 4, rotations and the reversal above (identity first).
func orders(n int) [][]int {
	if o, ok := orderCache[n]; ok {
		return o
	}
	var out [][]int
	if n <= 4 {
		var rec func(cur []int, used []bool)
		rec = func(cur []int, used []bool) {
			if len(cur) == n {
				out = append(out, append([]int(nil), cur...))
				return
			}
			for i := 0; i < n; i++ {
				if !used[i] {
					used[i] = true
					rec(append(cur, i), used)
					used[i] = false
				}
			}
		}
		rec(nil, make([]bool, n))
	} else {
		for r := 0; r < n; r++ {
			p := make([]int, n)
			for i := range p {
				p[i] = (i + r) % n
			}
			out = append(out, p)
		}
		p := make([]int, n)
		for i := range p {
			p[i] = n - 1 - i
		}
		out = append(out, p)
	}
	orderCache[n] = out
	return out
}
