package vs_test

import (
	"fmt"
	"sort"
	"strings"
	"testing"

	"verif/vs"
	"verif/vs/vsync"
)

// exploreAll runs body under every schedule (unbounded DFS over all choice points)
// and returns the set of distinct outcomes produced by outcome().
func exploreAll(t *testing.T, mk func() (body func(), outcome func(x *vs.Exec) string)) (map[string]int, int) {
	t.Helper()
	out := map[string]int{}
	n := 0
	var rec func(prefix []int)
	rec = func(prefix []int) {
		body, oc := mk()
		x := vs.Run(prefix, body)
		n++
		if n > 200000 {
			t.Fatalf("too many executions")
		}
		if x.Outcome == "engine-error" {
			t.Fatalf("engine error: %s", x.Detail)
		}
		out[oc(x)]++
		for i := len(prefix); i < len(x.Points); i++ {
			for alt := 1; alt < x.Points[i].N; alt++ {
				np := append(append([]int{}, x.Choices()[:i]...), alt)
				rec(np)
			}
		}
	}
	rec(nil)
	return out, n
}

func keys(m map[string]int) string {
	var ks []string
	for k := range m {
		ks = append(ks, k)
	}
	sort.Strings(ks)
	return strings.Join(ks, " | ")
}

func expect(t *testing.T, name string, got map[string]int, want ...string) {
	t.Helper()
	sort.Strings(want)
	if keys(got) != strings.Join(want, " | ") {
		t.Errorf("%s: outcome set {%s}, want {%s}", name, keys(got), strings.Join(want, " | "))
	}
}

func TestLostUpdateFound(t *testing.T) {
	got, n := exploreAll(t, func() (func(), func(*vs.Exec) string) {
		x := 0
		done := 0
		body := func() {
			for i := 0; i < 2; i++ {
				vs.Go(func() {
					tmp := x
					vs.Yield("between read and write")
					x = tmp + 1
					done++
				})
			}
			vs.Await(func() bool { return done == 2 }, "join")
		}
		return body, func(e *vs.Exec) string { return fmt.Sprintf("%s x=%d", e.Outcome, x) }
	})
	expect(t, "unprotected increment", got, "ok x=1", "ok x=2")
	t.Logf("%d executions", n)
}

func TestMutexExcludes(t *testing.T) {
	got, _ := exploreAll(t, func() (func(), func(*vs.Exec) string) {
		var mu vsync.Mutex
		x := 0
		var wg vsync.WaitGroup
		body := func() {
			for i := 0; i < 2; i++ {
				wg.Add(1)
				vs.Go(func() {
					defer wg.Done()
					mu.Lock()
					tmp := x
					vs.Yield("inside")
					x = tmp + 1
					mu.Unlock()
				})
			}
			wg.Wait()
		}
		return body, func(e *vs.Exec) string { return fmt.Sprintf("%s x=%d", e.Outcome, x) }
	})
	expect(t, "mutex-protected increment", got, "ok x=2")
}

func TestDeadlockDetected(t *testing.T) {
	got, _ := exploreAll(t, func() (func(), func(*vs.Exec) string) {
		var a, b vsync.Mutex
		var wg vsync.WaitGroup
		body := func() {
			wg.Add(2)
			vs.Go(func() { defer wg.Done(); a.Lock(); b.Lock(); b.Unlock(); a.Unlock() })
			vs.Go(func() { defer wg.Done(); b.Lock(); a.Lock(); a.Unlock(); b.Unlock() })
			wg.Wait()
		}
		return body, func(e *vs.Exec) string { return e.Outcome }
	})
	expect(t, "lock order inversion", got, "deadlock", "ok")
}

func TestUnbufferedRendezvous(t *testing.T) {
	got, _ := exploreAll(t, func() (func(), func(*vs.Exec) string) {
		ch := make(chan int)
		var log []string
		done := 0
		body := func() {
			vs.Go(func() { vs.Send(ch, 1); log = append(log, "sent"); done++ })
			vs.Go(func() { v := vs.Recv(ch); log = append(log, fmt.Sprint("got", v)); done++ })
			vs.Await(func() bool { return done == 2 }, "join")
		}
		return body, func(e *vs.Exec) string { return e.Outcome + " " + strings.Join(log, ",") }
	})
	expect(t, "unbuffered", got, "ok got1,sent", "ok sent,got1")
}

func TestSendWithoutReceiverBlocks(t *testing.T) {
	got, _ := exploreAll(t, func() (func(), func(*vs.Exec) string) {
		ch := make(chan int)
		body := func() { vs.Send(ch, 1) }
		return body, func(e *vs.Exec) string { return e.Outcome }
	})
	expect(t, "unbuffered send alone", got, "deadlock")
	got, _ = exploreAll(t, func() (func(), func(*vs.Exec) string) {
		var ch chan int
		body := func() { vs.Recv(ch) }
		return body, func(e *vs.Exec) string { return e.Outcome }
	})
	expect(t, "nil channel receive", got, "deadlock")
}

func TestBufferedAndClose(t *testing.T) {
	got, _ := exploreAll(t, func() (func(), func(*vs.Exec) string) {
		ch := make(chan int, 1)
		var log []string
		done := 0
		body := func() {
			vs.Go(func() { vs.Send(ch, 1); vs.Send(ch, 2); vs.Close(ch); done++ })
			vs.Go(func() {
				for {
					v, ok := vs.Recv2(ch)
					if !ok {
						log = append(log, "closed")
						break
					}
					log = append(log, fmt.Sprint(v))
				}
				done++
			})
			vs.Await(func() bool { return done == 2 }, "join")
		}
		return body, func(e *vs.Exec) string { return e.Outcome + " " + strings.Join(log, ",") }
	})
	expect(t, "buffered cap 1 + close", got, "ok 1,2,closed")
}

func TestSendOnClosedPanics(t *testing.T) {
	got, _ := exploreAll(t, func() (func(), func(*vs.Exec) string) {
		ch := make(chan int, 1)
		body := func() { vs.Close(ch); vs.Send(ch, 1) }
		return body, func(e *vs.Exec) string { return e.Outcome + " " + e.Detail }
	})
	expect(t, "send on closed", got, "panic send on closed channel")
	got, _ = exploreAll(t, func() (func(), func(*vs.Exec) string) {
		ch := make(chan int)
		body := func() { vs.Close(ch); vs.Close(ch) }
		return body, func(e *vs.Exec) string { return e.Outcome + " " + e.Detail }
	})
	expect(t, "double close", got, "panic close of closed channel")
}

func TestSelectDefaultAndReadyChoice(t *testing.T) {
	got, _ := exploreAll(t, func() (func(), func(*vs.Exec) string) {
		a := make(chan int, 1)
		b := make(chan int, 1)
		res := ""
		body := func() {
			sel := vs.NewSelect(true)
			vs.CaseRecv(sel, a)
			if sel.Wait() == -1 {
				res += "default;"
			}
			vs.Send(a, 1)
			vs.Send(b, 2)
			sel2 := vs.NewSelect(false)
			ca := vs.CaseRecv(sel2, a)
			cb := vs.CaseRecv(sel2, b)
			switch sel2.Wait() {
			case 0:
				res += fmt.Sprint("a", ca.Val)
			case 1:
				res += fmt.Sprint("b", cb.Val)
			}
		}
		return body, func(e *vs.Exec) string { return e.Outcome + " " + res }
	})
	expect(t, "select", got, "ok default;a1", "ok default;b2")
}

func TestWaitGroupZeroCrossingAndMisuse(t *testing.T) {
	got, _ := exploreAll(t, func() (func(), func(*vs.Exec) string) {
		var wg vsync.WaitGroup
		body := func() { wg.Add(1); wg.Done(); wg.Done() }
		return body, func(e *vs.Exec) string { return e.Outcome + " " + e.Detail }
	})
	expect(t, "negative counter", got, "panic sync: negative WaitGroup counter")
	got, _ = exploreAll(t, func() (func(), func(*vs.Exec) string) {
		var mu vsync.Mutex
		body := func() { mu.Unlock() }
		return body, func(e *vs.Exec) string { return e.Outcome + " " + e.Detail }
	})
	expect(t, "unlock of unlocked", got, "panic sync: unlock of unlocked mutex")
}

func TestPanicHoldingLockTearsDownCleanly(t *testing.T) {
	for i := 0; i < 3; i++ {
		var mu vsync.Mutex
		x := vs.Run(nil, func() {
			vs.Go(func() { mu.Lock(); mu.Unlock() })
			mu.Lock()
			defer mu.Unlock()
			vs.Yield("holding")
			panic("boom")
		})
		if x.Outcome != "panic" || x.Detail != "boom" {
			t.Fatalf("outcome %s %s", x.Outcome, x.Detail)
		}
	}
	// the runtime is usable afterwards
	x := vs.Run(nil, func() {})
	if x.Outcome != "ok" {
		t.Fatalf("after panic teardown: %s", x.Outcome)
	}
}

func TestReplayDeterminismAndDivergence(t *testing.T) {
	mk := func() (func(), *[]string) {
		var log []string
		return func() {
			done := 0
			for i := 0; i < 3; i++ {
				i := i
				vs.Go(func() { vs.Event("e", fmt.Sprint(i)); log = append(log, fmt.Sprint(i)); done++ })
			}
			vs.Await(func() bool { return done == 3 }, "join")
		}, &log
	}
	b1, l1 := mk()
	x1 := vs.Run([]int{2, 1}, b1)
	b2, l2 := mk()
	x2 := vs.Run(x1.Choices(), b2)
	if strings.Join(*l1, "") != strings.Join(*l2, "") || len(x1.Points) != len(x2.Points) {
		t.Fatalf("replay differs: %v vs %v", *l1, *l2)
	}
	b3, _ := mk()
	x3 := vs.Run([]int{9}, b3)
	if x3.Outcome != "engine-error" || !strings.Contains(x3.Detail, "replay divergence") {
		t.Fatalf("out-of-range choice must be a hard engine error, got %s %s", x3.Outcome, x3.Detail)
	}
}

func TestQuiescence(t *testing.T) {
	got, _ := exploreAll(t, func() (func(), func(*vs.Exec) string) {
		steps := 0
		seen := -1
		gate := false
		body := func() {
			vs.Go(func() {
				for i := 0; i < 3; i++ {
					vs.Yield("work")
					steps++
				}
				vs.Await(func() bool { return gate }, "gate")
			})
			vs.AwaitQuiescence()
			seen = steps
			gate = true
		}
		return body, func(e *vs.Exec) string { return fmt.Sprintf("%s seen=%d", e.Outcome, seen) }
	})
	expect(t, "quiescence is reached only when nothing else can move", got, "ok seen=3")
}

func TestKnownScheduleCount(t *testing.T) {
	// two threads with two yields each, main joins: the number of interleavings of two 3-step
	// sequences that the tree enumerates is stable (regression guard for the explorer/runtime pair)
	_, n := exploreAll(t, func() (func(), func(*vs.Exec) string) {
		done := 0
		body := func() {
			for i := 0; i < 2; i++ {
				vs.Go(func() { vs.Yield("a"); vs.Yield("b"); done++ })
			}
			vs.Await(func() bool { return done == 2 }, "join")
		}
		return body, func(e *vs.Exec) string { return e.Outcome }
	})
	if n != 20 {
		t.Errorf("explored %d schedules, want 20 (C(6,3) interleavings of two 3-step threads)", n)
	}
}
