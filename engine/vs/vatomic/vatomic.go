// Package vatomic replaces sync/atomic in instrumented code: every operation
// is a scheduling point followed by the real (sequentially consistent) operation.
// jrpc2 does not use sync/atomic at the pinned commit; this exists so that an
// edited tree that does is still explored at the right granularity.
package vatomic

import (
	"sync/atomic"
	"unsafe"

	"verif/vs"
)

func pt() { vs.Yield("atomic") }

type Int32 struct{ v atomic.Int32 }

func (x *Int32) Load() int32                        { pt(); return x.v.Load() }
func (x *Int32) Store(n int32)                      { pt(); x.v.Store(n) }
func (x *Int32) Add(n int32) int32                  { pt(); return x.v.Add(n) }
func (x *Int32) Swap(n int32) int32                 { pt(); return x.v.Swap(n) }
func (x *Int32) CompareAndSwap(o, n int32) bool     { pt(); return x.v.CompareAndSwap(o, n) }

type Int64 struct{ v atomic.Int64 }

func (x *Int64) Load() int64                        { pt(); return x.v.Load() }
func (x *Int64) Store(n int64)                      { pt(); x.v.Store(n) }
func (x *Int64) Add(n int64) int64                  { pt(); return x.v.Add(n) }
func (x *Int64) Swap(n int64) int64                 { pt(); return x.v.Swap(n) }
func (x *Int64) CompareAndSwap(o, n int64) bool     { pt(); return x.v.CompareAndSwap(o, n) }

type Uint32 struct{ v atomic.Uint32 }

func (x *Uint32) Load() uint32                      { pt(); return x.v.Load() }
func (x *Uint32) Store(n uint32)                    { pt(); x.v.Store(n) }
func (x *Uint32) Add(n uint32) uint32               { pt(); return x.v.Add(n) }
func (x *Uint32) Swap(n uint32) uint32              { pt(); return x.v.Swap(n) }
func (x *Uint32) CompareAndSwap(o, n uint32) bool   { pt(); return x.v.CompareAndSwap(o, n) }

type Uint64 struct{ v atomic.Uint64 }

func (x *Uint64) Load() uint64                      { pt(); return x.v.Load() }
func (x *Uint64) Store(n uint64)                    { pt(); x.v.Store(n) }
func (x *Uint64) Add(n uint64) uint64               { pt(); return x.v.Add(n) }
func (x *Uint64) Swap(n uint64) uint64              { pt(); return x.v.Swap(n) }
func (x *Uint64) CompareAndSwap(o, n uint64) bool   { pt(); return x.v.CompareAndSwap(o, n) }

type Bool struct{ v atomic.Bool }

func (x *Bool) Load() bool                      { pt(); return x.v.Load() }
func (x *Bool) Store(n bool)                    { pt(); x.v.Store(n) }
func (x *Bool) Swap(n bool) bool                { pt(); return x.v.Swap(n) }
func (x *Bool) CompareAndSwap(o, n bool) bool   { pt(); return x.v.CompareAndSwap(o, n) }

type Pointer[T any] struct{ v atomic.Pointer[T] }

func (x *Pointer[T]) Load() *T                      { pt(); return x.v.Load() }
func (x *Pointer[T]) Store(n *T)                    { pt(); x.v.Store(n) }
func (x *Pointer[T]) Swap(n *T) *T                  { pt(); return x.v.Swap(n) }
func (x *Pointer[T]) CompareAndSwap(o, n *T) bool   { pt(); return x.v.CompareAndSwap(o, n) }

type Value struct{ v atomic.Value }

func (x *Value) Load() any                      { pt(); return x.v.Load() }
func (x *Value) Store(n any)                    { pt(); x.v.Store(n) }
func (x *Value) Swap(n any) any                 { pt(); return x.v.Swap(n) }
func (x *Value) CompareAndSwap(o, n any) bool   { pt(); return x.v.CompareAndSwap(o, n) }

func AddInt32(p *int32, d int32) int32          { pt(); return atomic.AddInt32(p, d) }
func AddInt64(p *int64, d int64) int64          { pt(); return atomic.AddInt64(p, d) }
func AddUint32(p *uint32, d uint32) uint32      { pt(); return atomic.AddUint32(p, d) }
func AddUint64(p *uint64, d uint64) uint64      { pt(); return atomic.AddUint64(p, d) }
func LoadInt32(p *int32) int32                  { pt(); return atomic.LoadInt32(p) }
func LoadInt64(p *int64) int64                  { pt(); return atomic.LoadInt64(p) }
func LoadUint32(p *uint32) uint32               { pt(); return atomic.LoadUint32(p) }
func LoadUint64(p *uint64) uint64               { pt(); return atomic.LoadUint64(p) }
func StoreInt32(p *int32, v int32)              { pt(); atomic.StoreInt32(p, v) }
func StoreInt64(p *int64, v int64)              { pt(); atomic.StoreInt64(p, v) }
func StoreUint32(p *uint32, v uint32)           { pt(); atomic.StoreUint32(p, v) }
func StoreUint64(p *uint64, v uint64)           { pt(); atomic.StoreUint64(p, v) }
func SwapInt32(p *int32, v int32) int32         { pt(); return atomic.SwapInt32(p, v) }
func SwapInt64(p *int64, v int64) int64         { pt(); return atomic.SwapInt64(p, v) }
func CompareAndSwapInt32(p *int32, o, n int32) bool    { pt(); return atomic.CompareAndSwapInt32(p, o, n) }
func CompareAndSwapInt64(p *int64, o, n int64) bool    { pt(); return atomic.CompareAndSwapInt64(p, o, n) }
func CompareAndSwapUint32(p *uint32, o, n uint32) bool { pt(); return atomic.CompareAndSwapUint32(p, o, n) }
func CompareAndSwapUint64(p *uint64, o, n uint64) bool { pt(); return atomic.CompareAndSwapUint64(p, o, n) }
func LoadPointer(p *unsafe.Pointer) unsafe.Pointer     { pt(); return atomic.LoadPointer(p) }
func StorePointer(p *unsafe.Pointer, v unsafe.Pointer) { pt(); atomic.StorePointer(p, v) }
