// Package vs is the cooperative scheduler runtime used to model check the real
// jrpc2 code.  Instrumented library code and the harness call into this package
// at every synchronisation operation; exactly one controlled goroutine
// ("thread") runs at any time, and every decision (which enabled thread runs
// next, which environment answer is given) is a recorded choice point, so an
// execution is a deterministic function of its choice list.
//
// Outside an execution (Active == false) every operation falls through to the
// real primitive it stands for (pass-through mode).
package vs

import (
	"fmt"
	"runtime"
	"runtime/debug"
	"strings"
	"time"
)

// PointKind distinguishes scheduling decisions from environment decisions.
type PointKind uint8

const (
	PSched PointKind = iota // which enabled thread runs next
	PEnv                    // which environment answer is given (fault, ready select case, map order, ...)
	PFree                   // a scenario-level choice that costs no budget (e.g. the order in which the harness opens gates)
)

// Point is one recorded decision with at least two alternatives.
type Point struct {
	N          int       // number of alternatives
	Chosen     int       // index taken
	Kind       PointKind //
	CurEnabled bool      // PSched only: the running thread was still enabled (alt>0 is a preemption)
	Desc       string    // what the decision was about (for traces / divergence checks)
}

// Ev is one entry of the harness-visible event log.
type Ev struct {
	T int      // thread id
	K string   // kind
	A []string // arguments
}

func (e Ev) String() string { return fmt.Sprintf("T%d %s %s", e.T, e.K, strings.Join(e.A, " ")) }

// Arg returns argument i or "".
func (e Ev) Arg(i int) string {
	if i < len(e.A) {
		return e.A[i]
	}
	return ""
}

// Blocked describes a thread that had not finished when the execution ended.
type Blocked struct {
	ID   int
	Name string
	Desc string
}

// Exec is the record of one complete execution.
type Exec struct {
	Prefix     []int
	Points     []Point
	Log        []Ev
	Outcome    string // "ok", "deadlock", "panic", "engine-error"
	Detail     string // panic value / engine error text
	Stack      string // stack of the panicking thread
	PanicT     int
	Blocked    []Blocked // unfinished threads (outcome ok: main finished, these were left behind)
	Steps      int
	NThreads   int
	Trace      []string // per-step trace when Tracing
	AllStacks  string   // goroutine dump at deadlock when Tracing
	Quiescents int
}

// Choices returns the choice list of the execution.
func (x *Exec) Choices() []int {
	out := make([]int, len(x.Points))
	for i, p := range x.Points {
		out[i] = p.Chosen
	}
	return out
}

type thread struct {
	id      int
	name    string
	wake    chan struct{}
	gone    chan struct{}
	enabled func() bool // nil => runnable
	desc    string
	loc     string
	done    bool
	started bool
	quiesce bool
	pend    *chanOp
	res     []uintptr // resources of the pending operation (partial-order reduction)
	daemon  bool      // models a runtime-internal waiter (context.AfterFunc): never reported as left behind
	spawned bool      // has started a thread since its last scheduling point
}

var (
	// Active is true while an execution is in progress.
	Active bool
	// Tracing makes the runtime record a per-step trace with source locations.
	Tracing bool
	// MaxSteps bounds the number of scheduling steps of one execution (livelock guard).
	MaxSteps = 200000
	// MapOrderChoices makes MapKeys offer alternative iteration orders as environment choices.
	MapOrderChoices bool
	// SelectChoices makes a select with several ready cases offer each as an environment choice.
	SelectChoices = true
	// Fine makes release-like operations (Unlock, WaitGroup.Add/Done) scheduling points too, so that every
	// transition consists of exactly one synchronisation operation followed by thread-local code.
	Fine bool
	// POR enables sleep-set partial-order reduction (requires Fine; unbounded search only).
	POR bool

	asleep     map[*thread]bool
	pendingRes []uintptr

	cur      *thread
	threads  []*thread
	ex       *Exec
	aborting bool
	mainWake chan struct{}
	chans    map[any]*chanState
	finished bool
)

// Resource keys for the partial-order reduction. Two pending operations are dependent iff they share a
// key, or one of them carries ResAll, or one is a harness operation and the other a context operation
// (harness threads cancel contexts directly).
const (
	ResAll     uintptr = 1 // conflicts with everything (default for operations that declare nothing)
	ResHarness uintptr = 2 // every harness-level operation (event log, pipes, gates, joins)
	ResCtx     uintptr = 3 // context state: ctx.Err(), cancel functions, receives on channels closed by un-instrumented code
)

// SetRes declares the resources of the operation whose scheduling point follows.
func SetRes(keys ...uintptr) { pendingRes = keys }

func conflict(a, b []uintptr) bool {
	for _, x := range a {
		for _, y := range b {
			if x == y || x == ResAll || y == ResAll || (x == ResHarness && y == ResCtx) || (x == ResCtx && y == ResHarness) {
				return true
			}
		}
	}
	return false
}

// Cur returns the id of the running thread.
func Cur() int {
	if cur == nil {
		return -1
	}
	return cur.id
}

// Aborting reports whether the execution is being torn down.
func Aborting() bool { return aborting }

// Controlled reports whether the caller runs under the scheduler.
func Controlled() bool { return Active && !aborting }

// Run executes body as thread 0 under the given choice prefix (default choice 0
// afterwards) and returns the record of the execution.
// OnReset registers f to run before the next execution starts. The shims of process-global
// containers (sync.Pool, sync.Map) use it so that a package-level pool or cache in the code under
// test starts every execution empty: executions stay a function of their schedule alone.
func OnReset(f func()) { resetFns = append(resetFns, f) }

var resetFns []func()

func Run(prefix []int, body func()) *Exec {
	fs := resetFns
	resetFns = nil
	for _, f := range fs {
		f()
	}
	ex = &Exec{Prefix: prefix}
	threads = nil
	aborting = false
	finished = false
	chans = map[any]*chanState{}
	asleep = map[*thread]bool{}
	pendingRes = nil
	mainWake = make(chan struct{}, 1)
	Active = true
	t := newThread("main")
	cur = t
	startThread(t, body)
	t.wake <- struct{}{}
	<-mainWake
	// teardown: one thread at a time, so deferred library code never runs in parallel
	aborting = true
	for i := 0; i < len(threads); i++ { // threads may grow? not in abort mode (Go is a no-op)
		th := threads[i]
		select {
		case <-th.gone:
			continue
		default:
		}
		th.wake <- struct{}{}
		<-th.gone
	}
	Active = false
	aborting = false
	ex.NThreads = len(threads)
	x := ex
	cur = nil
	threads = nil
	chans = nil
	return x
}

func newThread(name string) *thread {
	t := &thread{id: len(threads), name: name, wake: make(chan struct{}, 1), gone: make(chan struct{})}
	threads = append(threads, t)
	return t
}

func startThread(t *thread, body func()) {
	go func() {
		defer close(t.gone)
		<-t.wake
		if aborting {
			return
		}
		t.started = true
		defer func() {
			if aborting {
				recover()
				return
			}
			if p := recover(); p != nil {
				if ee, ok := p.(engineError); ok {
					setOutcome("engine-error", string(ee), "")
				} else {
					setOutcome("panic", fmt.Sprint(p), string(debug.Stack()))
					ex.PanicT = t.id
				}
				t.done = true
				endExecution()
				return
			}
			threadExit(t)
		}()
		body()
	}()
}

type engineError string

func setOutcome(o, detail, stack string) {
	if ex.Outcome == "" {
		ex.Outcome, ex.Detail, ex.Stack = o, detail, stack
	}
}

func endExecution() {
	if finished {
		return
	}
	finished = true
	for _, th := range threads {
		if !th.done && !th.daemon {
			ex.Blocked = append(ex.Blocked, Blocked{ID: th.id, Name: th.name, Desc: th.desc + locSuffix(th)})
		}
	}
	if ex.Outcome == "" {
		if threads[0].done {
			ex.Outcome = "ok"
		} else {
			ex.Outcome = "deadlock"
		}
	}
	if Tracing && ex.Outcome != "ok" || Tracing && len(ex.Blocked) > 0 {
		buf := make([]byte, 1<<20)
		n := runtime.Stack(buf, true)
		ex.AllStacks = string(buf[:n])
	}
	mainWake <- struct{}{}
}

var (
	resAllSlice     = []uintptr{ResAll}
	resHarnessSlice = []uintptr{ResHarness}
	resCtxSlice     = []uintptr{ResCtx}
)

func locSuffix(t *thread) string {
	if t.loc != "" {
		return " @" + t.loc
	}
	return ""
}

// Go spawns a controlled thread. It is not a scheduling point.
func Go(body func()) { GoNamed("", body) }

// GoNamed is Go with a thread name for traces and blocked-thread reports.
func GoNamed(name string, body func()) {
	if !Active {
		go body()
		return
	}
	if aborting {
		return
	}
	if name == "" && Tracing {
		name = "go@" + callerLoc(2)
	}
	t := newThread(name)
	if cur != nil {
		cur.spawned = true
	}
	startThread(t, body)
}

// SpawnedSinceSched reports whether the running thread has started another thread since its last
// scheduling point. WaitGroup.Add uses it: "go f(); wg.Add(1)" lets the new goroutine reach Done
// before the Add, so in that one position the Add must be a scheduling point (everywhere else the
// counter update is atomic with the step it belongs to).
func SpawnedSinceSched() bool { return Active && cur != nil && cur.spawned }

func threadExit(t *thread) {
	t.done = true
	t.desc = "exited"
	next := pick(nil)
	if next == nil {
		endExecution()
		return
	}
	cur = next
	next.wake <- struct{}{}
}

func isEnabled(th *thread) bool {
	return th.enabled == nil || th.enabled()
}

// pick chooses the next thread to run. self is the calling thread when it is
// at a scheduling point (it may be chosen again), nil when it is exiting.
func pick(self *thread) *thread {
	var en []*thread
	selfEnabled := false
	sleepers := 0
	if self != nil && !self.quiesce && isEnabled(self) {
		if POR && asleep[self] {
			sleepers++
		} else {
			en = append(en, self)
			selfEnabled = true
		}
	}
	for _, th := range threads {
		if th == self || th.done || th.quiesce {
			continue
		}
		if isEnabled(th) {
			if POR && asleep[th] {
				sleepers++
				continue
			}
			en = append(en, th)
		}
	}
	if len(en) == 0 && sleepers > 0 {
		// every enabled thread is asleep: all continuations from here are reorderings of executions
		// that have been explored already
		setOutcome("sleep-blocked", "", "")
		return nil
	}
	if len(en) == 0 {
		for _, th := range threads {
			if !th.done && th.quiesce {
				en = append(en, th)
				break // quiescence waiters are released one at a time, lowest id first
			}
		}
		if len(en) == 0 {
			return nil
		}
		ex.Quiescents++
	}
	ex.Steps++
	if ex.Steps > MaxSteps {
		// every scenario of the harness ends within a few thousand steps (tens of thousands for the chunked
		// sequential ones): an execution that is still scheduling after MaxSteps is looping for ever
		setOutcome("livelock", fmt.Sprintf("no end after %d scheduling steps: some thread keeps running without the execution ever finishing", MaxSteps), "")
		return nil
	}
	c := 0
	if len(en) > 1 {
		var ok bool
		if c, ok = takeChoice(len(en), PSched, selfEnabled, "sched"); !ok {
			return nil
		}
	}
	if POR {
		for j := 0; j < c; j++ {
			asleep[en[j]] = true // explored as earlier siblings of this node
		}
		for u := range asleep {
			if u != en[c] && conflict(u.res, en[c].res) {
				delete(asleep, u)
			}
		}
		delete(asleep, en[c])
	}
	if Tracing {
		th := en[c]
		ex.Trace = append(ex.Trace, fmt.Sprintf("step %d: T%d(%s) %s%s  [enabled %d, choice %d]", ex.Steps, th.id, th.name, th.desc, locSuffix(th), len(en), c))
	}
	return en[c]
}

func takeChoice(n int, kind PointKind, curEnabled bool, desc string) (int, bool) {
	i := len(ex.Points)
	c := 0
	if i < len(ex.Prefix) {
		c = ex.Prefix[i]
		if c >= n || c < 0 {
			setOutcome("engine-error", fmt.Sprintf("replay divergence at point %d (%s): choice %d of %d", i, desc, c, n), "")
			return 0, false
		}
	}
	ex.Points = append(ex.Points, Point{N: n, Chosen: c, Kind: kind, CurEnabled: curEnabled, Desc: desc})
	return c, true
}

// Choose is an environment decision with n alternatives; 0 is the default answer.
func Choose(n int, desc string) int {
	if !Active || aborting || n <= 1 {
		return 0
	}
	c, ok := takeChoice(n, PEnv, false, desc)
	if !ok {
		endExecution()
		<-cur.wake
		runtime.Goexit()
	}
	if Tracing {
		ex.Trace = append(ex.Trace, fmt.Sprintf("   env: T%d %s -> %d of %d", cur.id, desc, c, n))
	}
	return c
}

// ChooseFree is a scenario-level decision with n alternatives that the explorer
// always enumerates completely (it costs none of the budgets).
func ChooseFree(n int, desc string) int {
	if !Active || aborting || n <= 1 {
		return 0
	}
	c, ok := takeChoice(n, PFree, false, desc)
	if !ok {
		endExecution()
		<-cur.wake
		runtime.Goexit()
	}
	if Tracing {
		ex.Trace = append(ex.Trace, fmt.Sprintf("   free choice: T%d %s -> %d of %d", cur.id, desc, c, n))
	}
	return c
}

func callerLoc(skip int) string {
	// report the first frame outside the runtime packages
	pcs := make([]uintptr, 16)
	n := runtime.Callers(skip+1, pcs)
	fr := runtime.CallersFrames(pcs[:n])
	for {
		f, more := fr.Next()
		if !strings.Contains(f.File, "/vs/") && !strings.Contains(f.File, "zzverif") {
			file := f.File
			if i := strings.LastIndex(file, "/"); i >= 0 {
				if j := strings.LastIndex(file[:i], "/"); j >= 0 {
					file = file[j+1:]
				}
			}
			return fmt.Sprintf("%s:%d", file, f.Line)
		}
		if !more {
			return ""
		}
	}
}

// point is a scheduling point; it returns when the calling thread has been
// chosen while its enabledness predicate holds.
func point(enabled func() bool, desc string) {
	t := cur
	t.spawned = false
	t.enabled = enabled
	t.desc = desc
	if pendingRes != nil {
		t.res, pendingRes = pendingRes, nil
	} else {
		t.res = resAllSlice
	}
	if Tracing {
		t.loc = callerLoc(2)
	}
	next := pick(t)
	if next == nil {
		endExecution()
		<-t.wake
		runtime.Goexit()
	}
	if next != t {
		cur = next
		next.wake <- struct{}{}
		<-t.wake
		if aborting {
			runtime.Goexit()
		}
	}
	t.enabled = nil
	t.quiesce = false
	t.desc = "running"
}

// Sched is an exported scheduling point with an enabledness predicate (nil = always).
func Sched(enabled func() bool, desc string) {
	if !Active || aborting {
		return
	}
	point(enabled, desc)
}

// Yield is an unconditional scheduling point.
func Yield(desc string) {
	if !Active || aborting {
		return
	}
	pendingRes = resHarnessSlice
	point(nil, desc)
}

// Await blocks the calling thread until cond holds.
func Await(cond func() bool, desc string) {
	if !Active || aborting {
		return
	}
	pendingRes = resHarnessSlice
	point(cond, desc)
}

// Event appends to the event log. The append is a scheduling point, so every
// relative order of events the program can produce is produced by some schedule.
func Event(k string, a ...string) {
	if !Active || aborting {
		return
	}
	pendingRes = resHarnessSlice
	point(nil, "event "+k)
	ex.Log = append(ex.Log, Ev{T: cur.id, K: k, A: a})
}

// Note appends to the event log without a scheduling point.
func Note(k string, a ...string) {
	if !Active || aborting {
		return
	}
	ex.Log = append(ex.Log, Ev{T: cur.id, K: k, A: a})
}

// LogLen returns the current length of the event log (a logical clock).
func LogLen() int {
	if ex == nil {
		return 0
	}
	return len(ex.Log)
}

// AwaitQuiescence blocks until no other thread is enabled.
func AwaitQuiescence() {
	if !Active || aborting {
		return
	}
	cur.quiesce = true
	pendingRes = resAllSlice
	point(nil, "quiesce")
}

// LiveThreads returns the number of threads other than the caller that have not finished,
// with their descriptions.
func LiveThreads() []Blocked {
	var out []Blocked
	for _, th := range threads {
		if th != cur && !th.done {
			out = append(out, Blocked{ID: th.id, Name: th.name, Desc: th.desc + locSuffix(th)})
		}
	}
	return out
}

// CtxErr is `ctx.Err()` in instrumented code: the state of a context is shared memory
// synchronised inside package context, so observing it is a scheduling point.
func CtxErr(c interface{ Err() error }) error {
	if Active && !aborting {
		pendingRes = resCtxSlice
		point(nil, "ctx.Err")
	}
	return c.Err()
}

// CtxCancel is a call of a context cancel function in instrumented code.
func CtxCancel(f func()) {
	if Active && !aborting {
		pendingRes = resCtxSlice
		point(nil, "ctx cancel")
	}
	f()
}

// CtxCancelCause is a call of a context.CancelCauseFunc.
func CtxCancelCause(f func(error), err error) {
	if Active && !aborting {
		pendingRes = resCtxSlice
		point(nil, "ctx cancel")
	}
	f(err)
}

// CtxAfterFunc is context.AfterFunc in instrumented code: f runs in its own (controlled) thread once
// ctx is done, unless the returned stop function is called first. The waiting thread stands for the
// runtime's internal registration, so it is never reported as a thread left behind.
func CtxAfterFunc(ctx interface {
	Done() <-chan struct{}
}, f func()) (stop func() bool) {
	if !Active || aborting {
		panic("vs: context.AfterFunc outside an execution is not supported by the instrumented build")
	}
	state := 0 // 0 waiting, 1 stopped, 2 fired
	done := ctx.Done()
	t := newThread("afterfunc")
	t.daemon = true
	startThread(t, func() {
		pendingRes = resCtxSlice
		point(func() bool {
			if state == 1 {
				return true
			}
			select {
			case <-done:
				return true
			default:
				return false
			}
		}, "context.AfterFunc wait")
		if state == 1 {
			return
		}
		state = 2
		cur.daemon = false
		f()
	})
	return func() bool {
		pendingRes = resCtxSlice
		point(nil, "context.AfterFunc stop")
		if state == 0 {
			state = 1
			return true
		}
		return false
	}
}

// Sleep stands for time.Sleep in instrumented code: no time passes, but every
// other thread may run before the sleeper continues (sound: a real sleep only
// guarantees a lower bound, and no oracle measures time).
func Sleep(d time.Duration) {
	_ = d
	Yield("time.Sleep")
}

// Timer stands in for time.Timer in instrumented code. Time is not modelled: a timer that is armed
// may fire at any scheduling point from then on (its firing is a thread of its own, so the explorer
// places it like any other thread: by default when nothing else can run, earlier at the price of a
// preemption), and it always fires before an execution can become quiescent. That is sound for
// properties that do not speak about durations: a real timeout guarantees no upper bound on what
// else happens first, and none of the oracles measures time.
type Timer struct {
	C      <-chan time.Time
	c      chan time.Time
	f      func()
	gen    int
	active bool
}

func (t *Timer) arm() {
	t.gen++
	g := t.gen
	t.active = true
	GoNamed("timer", func() {
		Yield("timer fires")
		if t.gen != g || !t.active {
			return
		}
		t.active = false
		if t.f != nil {
			t.f()
		} else if Len(t.c) == 0 {
			Send(t.c, time.Time{})
		}
	})
}

// NewTimer replaces time.NewTimer.
func NewTimer(d time.Duration) *Timer {
	_ = d
	t := &Timer{c: make(chan time.Time, 1)}
	t.C = t.c
	t.arm()
	return t
}

// After replaces time.After.
func After(d time.Duration) <-chan time.Time { return NewTimer(d).C }

// AfterFunc replaces time.AfterFunc.
func AfterFunc(d time.Duration, f func()) *Timer {
	_ = d
	t := &Timer{f: f}
	t.arm()
	return t
}

// Stop prevents the timer from firing; it reports whether it did.
func (t *Timer) Stop() bool {
	Yield("timer stop")
	was := t.active
	t.active = false
	return was
}

// Reset re-arms the timer.
func (t *Timer) Reset(d time.Duration) bool {
	was := t.Stop()
	t.arm()
	return was
}
