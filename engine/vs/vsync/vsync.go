// Package vsync is the drop-in replacement for package sync that instrumented
// code imports. Under the scheduler every acquire-like operation is a
// scheduling point whose enabledness is computed from runtime-side state;
// release-like operations update state without a scheduling point. Outside an
// execution every type behaves as the real primitive.
package vsync

import (
	"sync"

	"verif/vs"
)

type Locker = sync.Locker

// Mutex replaces sync.Mutex.
type Mutex struct {
	locked bool
	real   sync.Mutex
}

func (m *Mutex) Lock() {
	if !vs.Active {
		m.real.Lock()
		return
	}
	if vs.Aborting() {
		return
	}
	vs.Sched(func() bool { return !m.locked }, "mutex lock")
	m.locked = true
}

func (m *Mutex) TryLock() bool {
	if !vs.Active {
		return m.real.TryLock()
	}
	if vs.Aborting() {
		return true
	}
	vs.Sched(nil, "mutex trylock")
	if m.locked {
		return false
	}
	m.locked = true
	return true
}

func (m *Mutex) Unlock() {
	if !vs.Active {
		m.real.Unlock()
		return
	}
	if vs.Aborting() {
		return
	}
	if !m.locked {
		panic("sync: unlock of unlocked mutex")
	}
	m.locked = false
}

// RWMutex replaces sync.RWMutex (writer preference is not modelled: any
// admissible acquisition order is explored).
type RWMutex struct {
	readers int
	writer  bool
	real    sync.RWMutex
}

func (m *RWMutex) Lock() {
	if !vs.Active {
		m.real.Lock()
		return
	}
	if vs.Aborting() {
		return
	}
	vs.Sched(func() bool { return !m.writer && m.readers == 0 }, "rwmutex lock")
	m.writer = true
}

func (m *RWMutex) Unlock() {
	if !vs.Active {
		m.real.Unlock()
		return
	}
	if vs.Aborting() {
		return
	}
	if !m.writer {
		panic("sync: Unlock of unlocked RWMutex")
	}
	m.writer = false
}

func (m *RWMutex) RLock() {
	if !vs.Active {
		m.real.RLock()
		return
	}
	if vs.Aborting() {
		return
	}
	vs.Sched(func() bool { return !m.writer }, "rwmutex rlock")
	m.readers++
}

func (m *RWMutex) RUnlock() {
	if !vs.Active {
		m.real.RUnlock()
		return
	}
	if vs.Aborting() {
		return
	}
	if m.readers <= 0 {
		panic("sync: RUnlock of unlocked RWMutex")
	}
	m.readers--
}

func (m *RWMutex) RLocker() Locker { return (*rlocker)(m) }

type rlocker RWMutex

func (r *rlocker) Lock()   { (*RWMutex)(r).RLock() }
func (r *rlocker) Unlock() { (*RWMutex)(r).RUnlock() }

// WaitGroup replaces sync.WaitGroup, including its misuse panics.
type WaitGroup struct {
	n       int
	waiters []*bool // released flags of parked waiters
	real    sync.WaitGroup
}

func (w *WaitGroup) Add(d int) {
	if !vs.Active {
		w.real.Add(d)
		return
	}
	if vs.Aborting() {
		return
	}
	w.n += d
	if w.n < 0 {
		panic("sync: negative WaitGroup counter")
	}
	if w.n == 0 {
		for _, r := range w.waiters {
			*r = true // released by this zero crossing, whatever happens to the counter later
		}
		w.waiters = nil
	}
}

func (w *WaitGroup) Done() { w.Add(-1) }

func (w *WaitGroup) Wait() {
	if !vs.Active {
		w.real.Wait()
		return
	}
	if vs.Aborting() {
		return
	}
	released := false
	w.waiters = append(w.waiters, &released)
	vs.Sched(func() bool { return released || w.n == 0 }, "waitgroup wait")
	if !released {
		for i, r := range w.waiters {
			if r == &released {
				w.waiters = append(w.waiters[:i:i], w.waiters[i+1:]...)
				break
			}
		}
	}
}

// Go is the go1.25 convenience; present so that an edited tree still builds.
func (w *WaitGroup) Go(f func()) {
	w.Add(1)
	vs.Go(func() {
		defer w.Done()
		f()
	})
}

// Once replaces sync.Once.
type Once struct {
	done bool
	m    Mutex
	real sync.Once
}

func (o *Once) Do(f func()) {
	if !vs.Active {
		o.real.Do(f)
		return
	}
	if vs.Aborting() {
		return
	}
	if o.done {
		return
	}
	o.m.Lock()
	defer o.m.Unlock()
	if !o.done {
		defer func() { o.done = true }()
		f()
	}
}

// Cond replaces sync.Cond.
type Cond struct {
	L       Locker
	waiters []*bool
	real    *sync.Cond
}

func NewCond(l Locker) *Cond { return &Cond{L: l, real: sync.NewCond(l)} }

func (c *Cond) Wait() {
	if !vs.Active {
		c.real.Wait()
		return
	}
	if vs.Aborting() {
		return
	}
	woken := false
	c.waiters = append(c.waiters, &woken)
	c.L.Unlock()
	vs.Sched(func() bool { return woken }, "cond wait")
	c.L.Lock()
}

func (c *Cond) Signal() {
	if !vs.Active {
		c.real.Signal()
		return
	}
	if vs.Aborting() || len(c.waiters) == 0 {
		return
	}
	k := vs.Choose(len(c.waiters), "cond-signal")
	*c.waiters[k] = true
	c.waiters = append(c.waiters[:k:k], c.waiters[k+1:]...)
}

func (c *Cond) Broadcast() {
	if !vs.Active {
		c.real.Broadcast()
		return
	}
	if vs.Aborting() {
		return
	}
	for _, w := range c.waiters {
		*w = true
	}
	c.waiters = nil
}

// Pass-through for the remaining API used by programs that do not need control.
type (
	Map  = sync.Map
	Pool = sync.Pool
)

func OnceFunc(f func()) func() {
	var o Once
	return func() { o.Do(f) }
}
