// Package vsync is the drop-in replacement for package sync that instrumented
// code imports. Under the scheduler every acquire-like operation is a
// scheduling point whose enabledness is computed from runtime-side state;
// release-like operations update state without a scheduling point. Outside an
// execution every type behaves as the real primitive.
package vsync

import (
	"fmt"
	"sort"
	"sync"
	"unsafe"

	"verif/vs"
)

type Locker = sync.Locker

// Mutex replaces sync.Mutex.
type Mutex struct {
	locked bool
	real   sync.Mutex
}

func (m *Mutex) Lock() {
	if !vs.Active {
		m.real.Lock()
		return
	}
	if vs.Aborting() {
		return
	}
	vs.SetRes(uintptr(unsafe.Pointer(m)))
	vs.Sched(func() bool { return !m.locked }, "mutex lock")
	m.locked = true
}

func (m *Mutex) TryLock() bool {
	if !vs.Active {
		return m.real.TryLock()
	}
	if vs.Aborting() {
		return true
	}
	vs.SetRes(uintptr(unsafe.Pointer(m)))
	vs.Sched(nil, "mutex trylock")
	if m.locked {
		return false
	}
	m.locked = true
	return true
}

func (m *Mutex) Unlock() {
	if !vs.Active {
		m.real.Unlock()
		return
	}
	if vs.Aborting() {
		return
	}
	if vs.Fine {
		vs.SetRes(uintptr(unsafe.Pointer(m)))
		vs.Sched(nil, "mutex unlock")
	}
	if !m.locked {
		panic("sync: unlock of unlocked mutex")
	}
	m.locked = false
}

// RWMutex replaces sync.RWMutex (writer preference is not modelled: any
// admissible acquisition order is explored).
type RWMutex struct {
	readers int
	writer  bool
	real    sync.RWMutex
}

func (m *RWMutex) Lock() {
	if !vs.Active {
		m.real.Lock()
		return
	}
	if vs.Aborting() {
		return
	}
	vs.SetRes(uintptr(unsafe.Pointer(m)))
	vs.Sched(func() bool { return !m.writer && m.readers == 0 }, "rwmutex lock")
	m.writer = true
}

func (m *RWMutex) Unlock() {
	if !vs.Active {
		m.real.Unlock()
		return
	}
	if vs.Aborting() {
		return
	}
	if vs.Fine {
		vs.SetRes(uintptr(unsafe.Pointer(m)))
		vs.Sched(nil, "rwmutex unlock")
	}
	if !m.writer {
		panic("sync: Unlock of unlocked RWMutex")
	}
	m.writer = false
}

func (m *RWMutex) RLock() {
	if !vs.Active {
		m.real.RLock()
		return
	}
	if vs.Aborting() {
		return
	}
	vs.SetRes(uintptr(unsafe.Pointer(m)))
	vs.Sched(func() bool { return !m.writer }, "rwmutex rlock")
	m.readers++
}

func (m *RWMutex) RUnlock() {
	if !vs.Active {
		m.real.RUnlock()
		return
	}
	if vs.Aborting() {
		return
	}
	if vs.Fine {
		vs.SetRes(uintptr(unsafe.Pointer(m)))
		vs.Sched(nil, "rwmutex runlock")
	}
	if m.readers <= 0 {
		panic("sync: RUnlock of unlocked RWMutex")
	}
	m.readers--
}

func (m *RWMutex) RLocker() Locker { return (*rlocker)(m) }

type rlocker RWMutex

func (r *rlocker) Lock()   { (*RWMutex)(r).RLock() }
func (r *rlocker) Unlock() { (*RWMutex)(r).RUnlock() }

// WaitGroup replaces sync.WaitGroup, including its misuse panics.
type WaitGroup struct {
	n       int
	waiters []*bool // released flags of parked waiters
	real    sync.WaitGroup
}

func (w *WaitGroup) Add(d int) {
	if !vs.Active {
		w.real.Add(d)
		return
	}
	if vs.Aborting() {
		return
	}
	if vs.Fine {
		vs.SetRes(uintptr(unsafe.Pointer(w)))
		vs.Sched(nil, "waitgroup add")
	} else if d > 0 && vs.SpawnedSinceSched() {
		vs.Sched(nil, "waitgroup add after go")
	}
	w.n += d
	if w.n < 0 {
		panic("sync: negative WaitGroup counter")
	}
	if w.n == 0 {
		for _, r := range w.waiters {
			*r = true // released by this zero crossing, whatever happens to the counter later
		}
		w.waiters = nil
	}
}

func (w *WaitGroup) Done() { w.Add(-1) }

func (w *WaitGroup) Wait() {
	if !vs.Active {
		w.real.Wait()
		return
	}
	if vs.Aborting() {
		return
	}
	released := false
	w.waiters = append(w.waiters, &released)
	vs.SetRes(uintptr(unsafe.Pointer(w)))
	vs.Sched(func() bool { return released || w.n == 0 }, "waitgroup wait")
	if !released {
		for i, r := range w.waiters {
			if r == &released {
				w.waiters = append(w.waiters[:i:i], w.waiters[i+1:]...)
				break
			}
		}
	}
}

// Go is the go1.25 convenience; present so that an edited tree still builds.
func (w *WaitGroup) Go(f func()) {
	w.Add(1)
	vs.Go(func() {
		defer w.Done()
		f()
	})
}

// Once replaces sync.Once.
type Once struct {
	done bool
	m    Mutex
	real sync.Once
}

func (o *Once) Do(f func()) {
	if !vs.Active {
		o.real.Do(f)
		return
	}
	if vs.Aborting() {
		return
	}
	if o.done {
		return
	}
	o.m.Lock()
	defer o.m.Unlock()
	if !o.done {
		defer func() { o.done = true }()
		f()
	}
}

// Cond replaces sync.Cond.
type Cond struct {
	L       Locker
	waiters []*bool
	real    *sync.Cond
}

func NewCond(l Locker) *Cond { return &Cond{L: l, real: sync.NewCond(l)} }

func (c *Cond) Wait() {
	if !vs.Active {
		c.real.Wait()
		return
	}
	if vs.Aborting() {
		return
	}
	woken := false
	c.waiters = append(c.waiters, &woken)
	c.L.Unlock()
	vs.SetRes(uintptr(unsafe.Pointer(c)))
	vs.Sched(func() bool { return woken }, "cond wait")
	c.L.Lock()
}

func (c *Cond) Signal() {
	if !vs.Active {
		c.real.Signal()
		return
	}
	if vs.Aborting() || len(c.waiters) == 0 {
		return
	}
	k := vs.Choose(len(c.waiters), "cond-signal")
	*c.waiters[k] = true
	c.waiters = append(c.waiters[:k:k], c.waiters[k+1:]...)
}

func (c *Cond) Broadcast() {
	if !vs.Active {
		c.real.Broadcast()
		return
	}
	if vs.Aborting() {
		return
	}
	for _, w := range c.waiters {
		*w = true
	}
	c.waiters = nil
}

// Pool replaces sync.Pool with a deterministic free list (LIFO, nothing is ever dropped by the
// garbage collector): reuse of a pooled object is then a deterministic function of the history,
// which is what makes state that leaks through a pooled object observable.
type Pool struct {
	New   func() any
	items []any
	m     sync.Mutex
	reg   bool
}

func (p *Pool) Get() any {
	p.m.Lock()
	defer p.m.Unlock()
	if n := len(p.items); n > 0 {
		x := p.items[n-1]
		p.items = p.items[:n-1]
		return x
	}
	if p.New != nil {
		return p.New()
	}
	return nil
}

func (p *Pool) Put(x any) {
	if x == nil {
		return
	}
	p.m.Lock()
	if !p.reg {
		p.reg = true
		vs.OnReset(func() { p.items, p.reg = nil, false })
	}
	p.items = append(p.items, x)
	p.m.Unlock()
}

// Map replaces sync.Map: a plain map behind a (shimmed) mutex, so every operation is a scheduling point.
type Map struct {
	mu  Mutex
	m   map[any]any
	reg bool
}

// fresh allocates the map and arranges for it to be emptied before the next execution.
func (m *Map) fresh() {
	m.m = map[any]any{}
	if !m.reg {
		m.reg = true
		vs.OnReset(func() { m.m, m.reg = nil, false })
	}
}

func (m *Map) Load(k any) (any, bool) {
	m.mu.Lock()
	defer m.mu.Unlock()
	v, ok := m.m[k]
	return v, ok
}

func (m *Map) Store(k, v any) {
	m.mu.Lock()
	defer m.mu.Unlock()
	if m.m == nil {
		m.fresh()
	}
	m.m[k] = v
}

func (m *Map) LoadOrStore(k, v any) (any, bool) {
	m.mu.Lock()
	defer m.mu.Unlock()
	if old, ok := m.m[k]; ok {
		return old, true
	}
	if m.m == nil {
		m.fresh()
	}
	m.m[k] = v
	return v, false
}

func (m *Map) LoadAndDelete(k any) (any, bool) {
	m.mu.Lock()
	defer m.mu.Unlock()
	v, ok := m.m[k]
	delete(m.m, k)
	return v, ok
}

func (m *Map) Delete(k any) { m.LoadAndDelete(k) }

func (m *Map) Swap(k, v any) (any, bool) {
	m.mu.Lock()
	defer m.mu.Unlock()
	old, ok := m.m[k]
	if m.m == nil {
		m.fresh()
	}
	m.m[k] = v
	return old, ok
}

func (m *Map) CompareAndSwap(k, old, new any) bool {
	m.mu.Lock()
	defer m.mu.Unlock()
	if cur, ok := m.m[k]; ok && cur == old {
		m.m[k] = new
		return true
	}
	return false
}

func (m *Map) CompareAndDelete(k, old any) bool {
	m.mu.Lock()
	defer m.mu.Unlock()
	if cur, ok := m.m[k]; ok && cur == old {
		delete(m.m, k)
		return true
	}
	return false
}

func (m *Map) Range(f func(k, v any) bool) {
	m.mu.Lock()
	keys := make([]any, 0, len(m.m))
	for k := range m.m {
		keys = append(keys, k)
	}
	m.mu.Unlock()
	sort.Slice(keys, func(i, j int) bool { return fmt.Sprint(keys[i]) < fmt.Sprint(keys[j]) })
	for _, k := range keys {
		if v, ok := m.Load(k); ok && !f(k, v) {
			return
		}
	}
}

func (m *Map) Clear() {
	m.mu.Lock()
	m.m = nil
	m.mu.Unlock()
}

func OnceFunc(f func()) func() {
	var o Once
	return func() { o.Do(f) }
}
