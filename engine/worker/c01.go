package main

import (
	"context"
	"encoding/json"
	"fmt"
	"sort"
	"strings"
	"time"

	"github.com/creachadair/jrpc2"
	"verif/vs"
)

// C01 — exactly one correlated response per call, none per notification;
// one outbound message per inbound message, array iff array, request order,
// only after all of the message's handlers have returned.

func init() { register("C01", c01Scenarios) }

// runSeq is the common body: server on a pipe, peer sends the messages, waits
// for quiescence, closes; main joins WaitStatus.
func runSeq(h *seqHarness, conc int, opts *jrpc2.ServerOptions) {
	lib, peer, pipe := NewPipe(PipeOpts{Name: "srv", CloseUnblocksRecv: true})
	h.pipe, h.peer = pipe, peer
	if opts == nil {
		opts = &jrpc2.ServerOptions{}
	}
	opts.Concurrency = conc
	srv := jrpc2.NewServer(anyAssigner{h.handler()}, opts)
	h.srv = srv
	srv.Start(lib)
	vs.GoNamed("peer", func() {
		for i, m := range h.msgs {
			peer.Send([]byte(m.JSON))
			vs.Note("in", fmt.Sprint(i))
		}
		vs.AwaitQuiescence()
		vs.Note("quiet")
		peer.Close()
	})
	st := srv.WaitStatus()
	vs.Note("status", fmt.Sprintf("stopped=%v closed=%v err=%v", st.Stopped, st.Closed, st.Err))
}

func reportable(m *memberSpec) bool { return m.isCall() || m.Kind == 'x' || m.Kind == 'y' }

func signature(ids []string, isArray bool) string {
	s := strings.Join(ids, ",")
	if isArray {
		return "[" + s + "]"
	}
	return s
}

// checkSeqResponses implements C01.R1-R8 on the log of a message-sequence scenario.
func checkSeqResponses(h *seqHarness, x *vs.Exec) []Viol {
	var v []Viol
	hasDup := false
	for _, m := range h.msgs {
		for _, mem := range m.Members {
			if mem.Kind == 'd' {
				hasDup = true
			}
		}
	}
	// expected signatures
	expect := map[string]int{}
	sigOwner := map[string][]int{}
	for i, m := range h.msgs {
		var ids []string
		for _, mem := range m.Members {
			if reportable(mem) {
				if mem.ID == "" {
					ids = append(ids, "null")
				} else {
					ids = append(ids, mem.ID)
				}
			}
		}
		if len(ids) == 0 {
			continue
		}
		s := signature(ids, m.Batch)
		expect[s]++
		sigOwner[s] = append(sigOwner[s], i)
	}
	enters := map[string][]int{} // method -> log indices
	exits := map[string][]vs.Ev{}
	exitAt := map[string]int{}
	for i, e := range x.Log {
		switch e.K {
		case "h_enter":
			enters[e.Arg(0)] = append(enters[e.Arg(0)], i)
		case "h_exit":
			exits[e.Arg(0)] = append(exits[e.Arg(0)], e)
			exitAt[e.Arg(0)] = i
		}
	}
	quiet := findEv(x, 0, "quiet")
	got := map[string]int{}
	byID := map[string][]RMsg{}
	for _, o := range outEvents(x, "srv") {
		Hit("C01.R1")
		ms, isArr, err := parseRecord([]byte(o.Raw))
		if err != nil || len(ms) == 0 {
			v = append(v, Viol{"C01.R1", "outbound record is not an object or non-empty array of objects: " + o.Raw})
			continue
		}
		var ids []string
		for _, m := range ms {
			if err := wellFormedResponse(m); err != nil {
				v = append(v, Viol{"C01.R1", "malformed response: " + err.Error()})
			}
			ids = append(ids, m.ID())
			byID[m.ID()] = append(byID[m.ID()], m)
		}
		s := signature(ids, isArr)
		got[s]++
		if quiet >= 0 && o.At > quiet {
			v = append(v, Viol{"C01.R2", "output after the quiescent point: " + o.Raw})
		}
		// R5: only after all handlers of the owning message returned (unique owner only)
		if own := sigOwner[s]; len(own) == 1 {
			for _, mem := range h.msgs[own[0]].Members {
				if !mem.hasHandler() {
					continue
				}
				if len(enters[mem.Method]) == 0 {
					continue // never invoked (duplicate-id rejection)
				}
				Hit("C01.R5")
				if at, ok := exitAt[mem.Method]; !ok || at > o.At {
					v = append(v, Viol{"C01.R5", fmt.Sprintf("response message %s sent before handler %s had returned", s, mem.Method)})
				}
			}
		}
	}
	// R2/R3/R4/R6: multiset of (ids in order, array flag) equals the expected one
	Hit("C01.R2")
	if x.Outcome == "ok" {
		var keys []string
		for k := range expect {
			keys = append(keys, k)
		}
		for k := range got {
			if _, ok := expect[k]; !ok {
				keys = append(keys, k)
			}
		}
		sort.Strings(keys)
		for _, k := range keys {
			if expect[k] != got[k] {
				v = append(v, Viol{"C01.R2", fmt.Sprintf("expected %d outbound message(s) with ids %s (array iff inbound was, request order), observed %d", expect[k], k, got[k])})
			}
		}
	}
	// R7/R8 per member
	for _, m := range h.msgs {
		for _, mem := range m.Members {
			n := len(enters[mem.Method])
			switch mem.Kind {
			case 'n', 'h', 'z', 'e':
				Hit("C01.R8")
				if x.Outcome == "ok" && (n != 1 || len(exits[mem.Method]) != 1) && !(h.baseCtx && n == 0) {
					v = append(v, Viol{"C01.R8", fmt.Sprintf("notification %s: handler ran %d times", mem.Method, n)})
				}
			case 'v', 'u', 'x', 'y':
				Hit("C01.R8")
				if n != 0 {
					v = append(v, Viol{"C01.R8", fmt.Sprintf("handler invoked for %s which has no valid handler", mem.Method)})
				}
			}
			if !reportable(mem) || x.Outcome != "ok" {
				continue
			}
			id := mem.ID
			if id == "" {
				id = "null"
			}
			rs := byID[id]
			if len(rs) == 0 {
				continue // already reported by R2
			}
			Hit("C01.R7")
			switch mem.Kind {
			case 'c', 'g', 'f', 'd':
				if n > 1 {
					v = append(v, Viol{"C01.R7", fmt.Sprintf("handler of %s invoked %d times", mem.Method, n)})
				}
				if hasDup {
					// with duplicate ids in the sequence the response may be the duplicate-id rejection; checked by id count only
					if n == 0 {
						ok := false
						for _, r := range rs {
							if c, isE := r.ErrCode(); isE && c == -32600 {
								ok = true
							}
						}
						if !ok {
							v = append(v, Viol{"C01.R7", fmt.Sprintf("%s: no handler ran, but no protocol error was sent for id %s", mem.Method, id)})
						}
					}
					continue
				}
				if h.baseCtx && n == 0 {
					// the base context ended before the call got its turn: no handler, but still exactly one (error) response
					if _, isE := rs[0].ErrCode(); !isE {
						v = append(v, Viol{"C01.R7", fmt.Sprintf("call %s: no handler ran, yet the response is not an error: %s", mem.Method, rs[0].Raw)})
					}
					continue
				}
				if n != 1 || len(exits[mem.Method]) != 1 {
					v = append(v, Viol{"C01.R7", fmt.Sprintf("call %s: handler ran %d times", mem.Method, n)})
					continue
				}
				tok := exits[mem.Method][0].Arg(2)
				r := rs[0]
				if mem.Kind == 'f' {
					if c, isE := r.ErrCode(); !isE || c != 77 || !strings.Contains(r.ErrMessage(), tok) {
						v = append(v, Viol{"C01.R7", fmt.Sprintf("response for %s is not the error of its only invocation (%s): %s", mem.Method, tok, r.Raw)})
					}
				} else if r.Str("result") != `"`+tok+`"` {
					v = append(v, Viol{"C01.R7", fmt.Sprintf("response for %s is not the result of its only invocation (%s): %s", mem.Method, tok, r.Raw)})
				}
			case 'u':
				if c, isE := rs[0].ErrCode(); !isE || c != -32601 {
					v = append(v, Viol{"C01.R7", "unknown method not answered with -32601: " + string(rs[0].Raw)})
				}
			case 'x', 'y':
				okc := false
				for _, r := range rs {
					if c, isE := r.ErrCode(); isE && (c == -32600 || c == -32700) {
						okc = true
					}
				}
				if !okc {
					v = append(v, Viol{"C01.R7", "invalid member not answered with a protocol error: " + string(rs[0].Raw)})
				}
			case 'i':
				if !rs[0].Has("result") {
					v = append(v, Viol{"C01.R7", "rpc.serverInfo not answered with a result: " + string(rs[0].Raw)})
				}
			}
		}
	}
	return v
}

// c01Restart: the same Server serves a first connection, is waited for, and is started again on a fresh
// channel (which WaitStatus documents as allowed); the message sequence is sent on the SECOND connection.
func c01Restart(tokens []string, conc int, b Bounds) *Scenario {
	return &Scenario{
		Name:   fmt.Sprintf("restart then seq{%s} conc=%d", tokensName(tokens), conc),
		Params: map[string]any{"messages": tokens, "concurrency": conc, "restart": true},
		Bounds: b,
		New: func() *Instance {
			h := &seqHarness{msgs: buildSeq(tokens), gates: NewGates()}
			body := func() {
				srv := jrpc2.NewServer(anyAssigner{h.handler()}, &jrpc2.ServerOptions{Concurrency: conc})
				lib0, peer0, _ := NewPipe(PipeOpts{Name: "srv0", CloseUnblocksRecv: true, Quiet: true})
				srv.Start(lib0)
				peer0.Send([]byte(`{"jsonrpc":"2.0","id":"first","method":"warm"}`))
				peer0.Recv()
				peer0.Close()
				srv.WaitStatus()
				lib, peer, pipe := NewPipe(PipeOpts{Name: "srv", CloseUnblocksRecv: true})
				h.pipe, h.peer = pipe, peer
				srv.Start(lib)
				vs.GoNamed("peer", func() {
					for i, m := range h.msgs {
						peer.Send([]byte(m.JSON))
						vs.Note("in", fmt.Sprint(i))
					}
					vs.AwaitQuiescence()
					vs.Note("quiet")
					peer.Close()
				})
				st := srv.WaitStatus()
				vs.Note("status", fmt.Sprintf("stopped=%v closed=%v err=%v", st.Stopped, st.Closed, st.Err))
			}
			return &Instance{
				Body: body,
				Check: func(x *vs.Exec) []Viol {
					v := genericRules(x, nil)
					// the warm-up handler invocation is not part of the judged sequence
					y := *x
					y.Log = nil
					for _, e := range x.Log {
						if (e.K == "h_enter" || e.K == "h_exit") && e.Arg(0) == "warm" {
							continue
						}
						y.Log = append(y.Log, e)
					}
					return append(v, checkSeqResponses(h, &y)...)
				},
			}
		},
	}
}

// c01BaseCtx: the context every request context derives from (ServerOptions.NewContext) ends at an
// arbitrary moment while the first call is parked in its handler and later requests are waiting;
// the connection stays up, so every call must still get exactly one response.
func c01BaseCtx(tokens []string, conc int, b Bounds) *Scenario {
	return &Scenario{
		Name:   fmt.Sprintf("seq{%s} conc=%d +base context ends", tokensName(tokens), conc),
		Params: map[string]any{"messages": tokens, "concurrency": conc, "base_context_cancelled": true},
		Bounds: b,
		New: func() *Instance {
			h := &seqHarness{msgs: buildSeq(tokens), gates: NewGates(), baseCtx: true}
			body := func() {
				lib, peer, pipe := NewPipe(PipeOpts{Name: "srv", CloseUnblocksRecv: true})
				h.pipe, h.peer = pipe, peer
				base, cancel := cancelCauseCtx()
				defer cancel()
				srv := jrpc2.NewServer(anyAssigner{h.handler()}, &jrpc2.ServerOptions{Concurrency: conc, NewContext: func() context.Context { return base }})
				h.srv = srv
				srv.Start(lib)
				vs.GoNamed("peer", func() {
					for i, m := range h.msgs {
						peer.Send([]byte(m.JSON))
						vs.Note("in", fmt.Sprint(i))
					}
					vs.AwaitQuiescence()
					for _, m := range h.msgs {
						for _, mem := range m.Members {
							if mem.Kind == 'g' || mem.Kind == 'h' {
								h.gates.Open(mem.Method)
							}
						}
					}
					vs.AwaitQuiescence()
					vs.Note("quiet")
					peer.Close()
				})
				vs.GoNamed("basectx", func() { vs.Event("env", "basectx"); cancel() })
				st := srv.WaitStatus()
				vs.Note("status", fmt.Sprintf("stopped=%v closed=%v err=%v", st.Stopped, st.Closed, st.Err))
			}
			return &Instance{Body: body, Check: func(x *vs.Exec) []Viol {
				return append(genericRules(x, nil), checkSeqResponses(h, x)...)
			}}
		},
	}
}

// c01PushCollide: on a push-enabled server the ids of the server's own callbacks and the ids chosen by
// the client are independent number spaces. While a callback with id P is unanswered the client sends
// calls (single and in a batch) that carry the same id text P: they are requests, not replies.
// c01Odd: a few shapes outside the token alphabet, one after the other on a push-enabled server: the reply
// to a pending callback batched with a call; a batch preceded by white space; a handler whose error reports
// the code NoError. Every call gets exactly one response with a result or an error, nothing else is sent.
func c01Odd() *Scenario {
	return &Scenario{
		Name:   "push-enabled: callback reply batched with a call; batch after leading white space; handler error with code NoError; results that are nil, pre-encoded or not encodable",
		Params: map[string]any{},
		Bounds: Bounds{0, 0, 0},
		New: func() *Instance {
			h := &seqHarness{gates: NewGates()}
			body := func() {
				lib, peer, pipe := NewPipe(PipeOpts{Name: "srv", CloseUnblocksRecv: true})
				h.pipe, h.peer = pipe, peer
				inner := h.handler()
				hd := func(ctx context.Context, req *jrpc2.Request) (any, error) {
					switch req.Method() {
					case "noerr":
						return nil, myCoder{c: jrpc2.NoError}
					case "rawnil": // marshals as null
						return json.RawMessage(nil), nil
					case "rawempty": // cannot be marshalled
						return json.RawMessage{}, nil
					case "rawbad": // cannot be marshalled
						return json.RawMessage("{"), nil
					case "nilptr": // marshals as null
						return (*int)(nil), nil
					case "rawok":
						return json.RawMessage(" {\"a\" : 1} "), nil
					}
					return inner(ctx, req)
				}
				srv := jrpc2.NewServer(anyAssigner{hd}, &jrpc2.ServerOptions{Concurrency: 4, AllowPush: true})
				srv.Start(lib)
				vs.GoNamed("peer", func() {
					defer peer.Close()
					peer.Send([]byte(`{"jsonrpc":"2.0","id":100,"method":"q0"}`))
					pushID := ""
					for pushID == "" {
						rec, ok := peer.Recv()
						if !ok {
							return
						}
						ms, _, _ := parseRecord(rec)
						for _, m := range ms {
							if m.Has("method") && m.Has("id") {
								pushID = m.ID()
							}
						}
					}
					peer.Send([]byte(fmt.Sprintf(`[{"jsonrpc":"2.0","id":%s,"result":"cbreply"},{"jsonrpc":"2.0","id":7,"method":"c1"}]`, pushID)))
					vs.AwaitQuiescence()
					peer.Send([]byte("\n\t [{\"jsonrpc\":\"2.0\",\"id\":8,\"method\":\"c2\"},{\"jsonrpc\":\"2.0\",\"id\":9,\"method\":\"c3\"}]"))
					vs.AwaitQuiescence()
					peer.Send([]byte(" \r\n[{\"jsonrpc\":\"2.0\",\"id\":11,\"method\":\"c4\"}] "))
					vs.AwaitQuiescence()
					peer.Send([]byte(`{"jsonrpc":"2.0","id":10,"method":"noerr"}`))
					vs.AwaitQuiescence()
					// results that are pre-encoded, nil or not encodable: still exactly one response with exactly one outcome
					peer.Send([]byte(`{"jsonrpc":"2.0","id":12,"method":"rawnil"}`))
					vs.AwaitQuiescence()
					peer.Send([]byte(`[{"jsonrpc":"2.0","id":13,"method":"rawempty"},{"jsonrpc":"2.0","id":14,"method":"rawbad"},{"jsonrpc":"2.0","id":15,"method":"nilptr"},{"jsonrpc":"2.0","id":16,"method":"rawok"},{"jsonrpc":"2.0","id":17,"method":"rawnil"}]`))
					vs.AwaitQuiescence()
					vs.Note("quiet")
				})
				srv.WaitStatus()
			}
			check := func(x *vs.Exec) []Viol {
				v := genericRules(x, nil)
				if x.Outcome != "ok" {
					return v
				}
				Hit("C01.R1")
				wantKind := map[string]string{"12": "result", "13": "error", "14": "error", "15": "result", "16": "result", "17": "result"}
				seen := map[string]int{}
				for _, o := range outEvents(x, "srv") {
					ms, _, err := parseRecord([]byte(o.Raw))
					if err != nil {
						v = append(v, Viol{"C01.R2", "unparsable output " + o.Raw})
						continue
					}
					for _, m := range ms {
						if m.Has("method") {
							continue // the pushed callback
						}
						seen[m.ID()]++
						if m.Has("result") == m.Has("error") {
							v = append(v, Viol{"C01.R1", "a response must carry exactly one of result and error: " + string(m.Raw)})
						} else if k := wantKind[m.ID()]; k != "" && !m.Has(k) {
							v = append(v, Viol{"C01.R1", "the handler's outcome for call " + m.ID() + " is a " + k + ", the response is " + string(m.Raw)})
						}
					}
				}
				for _, id := range []string{"100", "7", "8", "9", "10", "11", "12", "13", "14", "15", "16", "17"} {
					if seen[id] != 1 {
						v = append(v, Viol{"C01.R1", fmt.Sprintf("call %s received %d responses, want exactly one", id, seen[id])})
					}
					delete(seen, id)
				}
				for id, n := range seen {
					v = append(v, Viol{"C01.R2", fmt.Sprintf("%d response(s) with id %s that answer no call", n, id)})
				}
				return v
			}
			return &Instance{Body: body, Check: check}
		},
	}
}

func c01PushCollide(b Bounds) *Scenario {
	return &Scenario{
		Name:   "push-enabled: client calls carrying the id of an unanswered server callback",
		Params: map[string]any{"history": []string{"call 100 (its handler issues a Callback, push id P)", "call with id P", "batch [call with id P+1000, notification]", "reply to the callback", "call 100 completes"}},
		Bounds: b,
		New: func() *Instance {
			h := &seqHarness{gates: NewGates()}
			body := func() {
				lib, peer, pipe := NewPipe(PipeOpts{Name: "srv", CloseUnblocksRecv: true})
				h.pipe, h.peer = pipe, peer
				srv := jrpc2.NewServer(anyAssigner{h.handler()}, &jrpc2.ServerOptions{Concurrency: 4, AllowPush: true})
				srv.Start(lib)
				vs.GoNamed("peer", func() {
					defer peer.Close()
					peer.Send([]byte(`{"jsonrpc":"2.0","id":100,"method":"q0"}`))
					pushID := ""
					for pushID == "" {
						rec, ok := peer.Recv()
						if !ok {
							return
						}
						ms, _, _ := parseRecord(rec)
						for _, m := range ms {
							if m.Has("method") && m.Has("id") {
								pushID = m.ID()
							}
						}
					}
					vs.Note("push-id", pushID)
					peer.Send([]byte(fmt.Sprintf(`{"jsonrpc":"2.0","id":%s,"method":"c1"}`, pushID)))
					vs.AwaitQuiescence()
					peer.Send([]byte(fmt.Sprintf(`[{"jsonrpc":"2.0","id":%s,"method":"c2"},{"jsonrpc":"2.0","method":"n2"}]`, pushID)))
					vs.AwaitQuiescence()
					vs.Note("before-reply")
					peer.Send([]byte(fmt.Sprintf(`{"jsonrpc":"2.0","id":%s,"result":"cbreply"}`, pushID)))
					vs.AwaitQuiescence()
					vs.Note("quiet")
				})
				srv.WaitStatus()
			}
			check := func(x *vs.Exec) []Viol {
				v := genericRules(x, nil)
				if x.Outcome != "ok" {
					return v
				}
				pi := findEv(x, 0, "push-id")
				if pi < 0 {
					return append(v, Viol{"C01.R2", "the handler's Callback was never transmitted"})
				}
				pid := x.Log[pi].Arg(0)
				toks := map[string]string{}
				runs := map[string]int{}
				for _, e := range x.Log {
					if e.K == "h_exit" {
						toks[e.Arg(0)] = e.Arg(2)
						runs[e.Arg(0)]++
					}
				}
				Hit("C01.R8")
				for _, m := range []string{"q0", "c1", "c2", "n2"} {
					if runs[m] != 1 {
						v = append(v, Viol{"C01.R8", fmt.Sprintf("handler of %s ran %d times, want once (client ids and callback ids are independent)", m, runs[m])})
					}
				}
				// responses: one per call, carrying the token of its own invocation
				got := map[string][]string{}
				before := findEv(x, 0, "before-reply")
				for _, o := range outEvents(x, "srv") {
					ms, _, _ := parseRecord([]byte(o.Raw))
					for _, m := range ms {
						if m.Has("method") {
							continue // the pushed callback request
						}
						got[m.ID()] = append(got[m.ID()], m.Str("result"))
						if m.ID() == "100" && o.At < before {
							v = append(v, Viol{"C09.R4", "call 100 was answered before the peer had replied to the callback its handler awaits: " + o.Raw})
						}
					}
				}
				Hit("C01.R2")
				want := map[string][]string{"100": {`"` + toks["q0"] + `"`}, pid: {`"` + toks["c1"] + `"`, `"` + toks["c2"] + `"`}}
				for id, w := range want {
					if fmt.Sprint(got[id]) != fmt.Sprint(w) {
						v = append(v, Viol{"C01.R2", fmt.Sprintf("responses with id %s: got %v, want %v (each call answered once with the outcome of its own handler)", id, got[id], w)})
					}
				}
				if i := findEv(x, 0, "cb_ret", "q0"); i < 0 || x.Log[i].Arg(1) != "ok" || x.Log[i].Arg(2) != `"cbreply"` {
					v = append(v, Viol{"C09.R5", "the callback did not return the peer's reply"})
				}
				return v
			}
			return &Instance{Body: body, Check: check}
		},
	}
}

func c01Seq(tokens []string, conc int, b Bounds) *Scenario {
	return &Scenario{
		Name:   fmt.Sprintf("seq{%s} conc=%d", tokensName(tokens), conc),
		Params: map[string]any{"messages": tokens, "concurrency": conc},
		Bounds: b,
		New: func() *Instance {
			h := &seqHarness{msgs: buildSeq(tokens), gates: NewGates()}
			return &Instance{
				Body: func() { runSeq(h, conc, nil) },
				Check: func(x *vs.Exec) []Viol {
					v := genericRules(x, nil)
					return append(v, checkSeqResponses(h, x)...)
				},
			}
		},
	}
}

// c01SeqOpts runs a sequence with every ServerOptions field that is not a
// scenario dimension elsewhere set to a non-default value at once: a debug
// Logger, an RPCLogger (whose calls are scheduling-visible notes), AllowPush
// and a StartTime. None of them may change what the peer sees.
type noteRPCLog struct{}

func (noteRPCLog) LogRequest(ctx context.Context, req *jrpc2.Request) {
	vs.Note("rpclog-req", req.Method(), req.ID())
}
func (noteRPCLog) LogResponse(ctx context.Context, rsp *jrpc2.Response) {
	vs.Note("rpclog-rsp", rsp.ID())
}

func c01SeqOpts(tokens []string, conc int, b Bounds) *Scenario {
	return &Scenario{
		Name:   fmt.Sprintf("seq{%s} conc=%d opts=log+rpclog+push+starttime", tokensName(tokens), conc),
		Params: map[string]any{"messages": tokens, "concurrency": conc, "options": "Logger,RPCLog,AllowPush,StartTime"},
		Bounds: b,
		New: func() *Instance {
			h := &seqHarness{msgs: buildSeq(tokens), gates: NewGates()}
			return &Instance{
				Body: func() {
					runSeq(h, conc, &jrpc2.ServerOptions{
						Logger:    func(text string) { _ = len(text) },
						RPCLog:    noteRPCLog{},
						AllowPush: true,
						StartTime: time.Unix(1000, 0),
					})
				},
				Check: func(x *vs.Exec) []Viol {
					v := genericRules(x, nil)
					return append(v, checkSeqResponses(h, x)...)
				},
			}
		},
	}
}

var c01Alphabet = []string{"c", "f", "n", "[cc]", "[cn]", "[nc]", "[nn]", "[n]", "[c]", "u", "v", "[cx]", "[yc]", "x", "[cd]", "i", "z", "[zz]", "[cv]", "[vn]", "[xcc]", "[ucn]", "[ync]", "e", "[ec]", "[ee]"}

func c01Scenarios(tier string) []*Scenario {
	var out []*Scenario
	running := map[string]bool{"z": true, "[zz]": true, "c": true, "f": true, "n": true, "[cc]": true, "[cn]": true, "[nc]": true, "[nn]": true, "[n]": true, "[c]": true, "[cx]": true, "[yc]": true, "[cd]": true, "[cv]": true, "[vn]": true, "[xcc]": true, "[ucn]": true, "[ync]": true, "e": true, "[ec]": true, "[ee]": true}
	if tier == "quick" {
		for _, a := range c01Alphabet {
			out = append(out, c01Seq([]string{a}, 2, Bounds{2, -1, 1}))
		}
		for _, a := range []string{"c", "n", "[cn]", "[nc]", "[cc]", "z", "[cv]", "[ucn]"} {
			for _, b := range c01Alphabet {
				out = append(out, c01Seq([]string{a, b}, 2, Bounds{1, -1, 0}))
			}
		}
		for _, p := range [][]string{{"c", "c"}, {"[cn]", "c"}, {"c", "d"}, {"[cc]", "n"}, {"n", "[cc]"}} {
			out = append(out, c01Seq(p, 2, Bounds{2, -1, 0}))
		}
		out = append(out, c01Seq([]string{"[cc]", "c"}, 1, Bounds{2, -1, 0}))
		out = append(out, c01Seq([]string{"n", "c"}, 1, Bounds{2, -1, 0}), c01Seq([]string{"[nc]", "[cn]"}, 1, Bounds{1, -1, 0}))
		out = append(out, c01Seq([]string{"c", "n", "c"}, 2, Bounds{1, -1, 0}))
		out = append(out, c01Restart([]string{"c"}, 2, Bounds{2, -1, 1}), c01Restart([]string{"c", "c"}, 2, Bounds{1, -1, 1}), c01Restart([]string{"n", "c"}, 1, Bounds{1, -1, 1}))
		for _, p := range [][]string{{"g", "n", "c"}, {"g", "c", "c"}} {
			out = append(out, c01BaseCtx(p, 1, Bounds{1, -1, 0}))
		}
		out = append(out, c01PushCollide(Bounds{1, 1, 0}), c01Odd())
		for _, p := range [][]string{{"c"}, {"n"}, {"[cn]"}, {"[cx]"}, {"e"}, {"z"}, {"n", "c"}, {"[cd]", "c"}} {
			out = append(out, c01SeqOpts(p, 2, Bounds{1, -1, 0}))
		}
		return out
	}
	for _, a := range c01Alphabet {
		// single messages: unbounded search, i.e. every interleaving (reported as complete when no branch was cut)
		out = append(out, c01Seq([]string{a}, 2, Bounds{-1, -1, -1}))
		out = append(out, c01Seq([]string{a}, 1, Bounds{3, -1, 1}))
	}
	for _, a := range c01Alphabet {
		for _, b := range c01Alphabet {
			bd := Bounds{2, -1, 0}
			if !running[a] {
				bd = Bounds{1, -1, 0}
			}
			out = append(out, c01Seq([]string{a, b}, 2, bd))
		}
	}
	for _, p := range [][]string{{"c", "c"}, {"[cn]", "c"}, {"c", "d"}, {"[cc]", "n"}, {"n", "[cc]"}, {"n", "c"}, {"[nc]", "[cn]"}, {"f", "c"}, {"[cd]", "c"}, {"c", "[cd]"}} {
		out = append(out, c01Seq(p, 2, Bounds{3, -1, 1}))
		out = append(out, c01Seq(p, 1, Bounds{2, -1, 0}))
	}
	for _, p := range [][]string{{"c"}, {"n"}, {"c", "c"}, {"n", "c"}, {"[cn]", "c"}} {
		out = append(out, c01Restart(p, 2, Bounds{2, -1, 1}))
	}
	for _, p := range [][]string{{"g", "n", "c"}, {"g", "c", "c"}, {"g", "[nc]", "c"}, {"g", "[nn]", "c"}, {"g", "n", "n"}, {"g", "[cn]", "n"}} {
		out = append(out, c01BaseCtx(p, 1, Bounds{2, -1, 0}))
	}
	out = append(out, c01BaseCtx([]string{"g", "g", "n", "c"}, 2, Bounds{2, -1, 0}), c01BaseCtx([]string{"c", "n", "c"}, 2, Bounds{2, -1, 0}))
	out = append(out, c01PushCollide(Bounds{2, 2, 0}), c01Odd())
	for _, a := range c01Alphabet {
		out = append(out, c01SeqOpts([]string{a}, 2, Bounds{2, -1, 0}), c01SeqOpts([]string{a, "c"}, 1, Bounds{1, -1, 0}))
	}
	sub := []string{"c", "n", "[cn]", "[cc]", "d", "y", "z"}
	for _, a := range sub {
		for _, b := range sub {
			for _, c := range sub {
				out = append(out, c01Seq([]string{a, b, c}, 2, Bounds{1, -1, 0}))
			}
		}
	}
	return out
}
