package main

import (
	"context"
	"encoding/json"
	"fmt"
	"strings"

	"github.com/creachadair/jrpc2"
	"verif/vs"
)

// C02 — JSON-RPC 2.0 conformance and survival on arbitrary inbound records.
// Bounded-exhaustive input enumeration; each input is fed to a real Server under
// the cooperative scheduler (default schedule), because only the scheduler can tell
// soundly that the server has gone quiet ("produces no output"). The iteration order
// of the member parser's map is an explorer choice: members with several defects are
// run under every key order.

func init() { register("C02", c02Scenarios) }

// ---- independent classifier (written from the JSON-RPC 2.0 text and the README) ----

type memberClass struct {
	Invalid   bool   // structurally invalid: one error object (-32700 or -32600)
	EchoID    string // JSON text of the id the error / response must carry ("null" if none)
	ReplyLike bool   // no method, has result or error: dropped on a push-enabled server
	Unclear   bool   // reply-like with further defects: push-enabled server may drop or answer
	IsCall    bool   // valid request with an id
	IsNote    bool   // valid request without id (or id null)
	DupID     bool   // valid call whose id is shared with another member of the same batch: rejected (-32600), handler not run
	Method    string
	Params    string // "" if absent or null
	Defects   int
}

func jsonKind(raw json.RawMessage) byte {
	t := strings.TrimSpace(string(raw))
	if t == "" {
		return 0
	}
	switch t[0] {
	case '{':
		return 'o'
	case '[':
		return 'a'
	case '"':
		return 's'
	case 't', 'f':
		return 'b'
	case 'n':
		return 'n'
	}
	return '#'
}

func classifyMember(raw json.RawMessage) memberClass {
	var obj map[string]json.RawMessage
	if jsonKind(raw) != 'o' || json.Unmarshal(raw, &obj) != nil {
		return memberClass{Invalid: true, EchoID: "null", Defects: 1}
	}
	c := memberClass{EchoID: "null"}
	idRaw, hasID := obj["id"]
	idKind := jsonKind(idRaw)
	if hasID {
		switch idKind {
		case 's', '#':
			c.EchoID = strings.TrimSpace(string(idRaw))
		case 'n':
		default:
			c.Defects++ // invalid id type
		}
	}
	var ver string
	if v, ok := obj["jsonrpc"]; !ok || json.Unmarshal(v, &ver) != nil || jsonKind(v) != 's' || ver != "2.0" {
		c.Defects++
	}
	mRaw, hasM := obj["method"]
	methodOK := false
	if hasM {
		if jsonKind(mRaw) == 's' && json.Unmarshal(mRaw, &c.Method) == nil && c.Method != "" {
			methodOK = true
		} else {
			c.Defects++
		}
	}
	if p, ok := obj["params"]; ok {
		switch jsonKind(p) {
		case 'o', 'a':
			c.Params = strings.TrimSpace(string(p))
		case 'n':
		default:
			c.Defects++
		}
	}
	_, hasR := obj["result"]
	_, hasE := obj["error"]
	if hasE {
		var eo map[string]json.RawMessage
		if jsonKind(obj["error"]) != 'o' || json.Unmarshal(obj["error"], &eo) != nil {
			c.Defects++
		}
	}
	for k := range obj {
		switch k {
		case "jsonrpc", "id", "method", "params", "result", "error":
		default:
			c.Defects++
		}
	}
	if hasM && (hasR || hasE) {
		c.Defects++ // mixed request and reply fields
		if !methodOK {
			// a method member that is not a usable name (empty, or not a string) together with
			// result/error: whether this counts as "reply-shaped" is not specified
			c.ReplyLike, c.Unclear = true, true
		}
	}
	if !hasM {
		if hasR || hasE {
			c.ReplyLike = true
			if c.Defects > 0 {
				c.Unclear = true
			}
		}
		c.Defects++ // no method: not a request
	}
	if c.Defects > 0 {
		c.Invalid = true
		return c
	}
	_ = methodOK
	if hasID && idKind != 'n' {
		c.IsCall = true
	} else {
		c.IsNote = true
	}
	return c
}

// expectation for one whole record
type recExpect struct {
	NotJSON    bool
	EmptyBatch bool
	IsArray    bool
	Members    []memberClass
}

func classifyRecord(b []byte) recExpect {
	if !json.Valid(b) {
		return recExpect{NotJSON: true}
	}
	t := strings.TrimSpace(string(b))
	if t[0] == '[' {
		var raws []json.RawMessage
		json.Unmarshal(b, &raws)
		if len(raws) == 0 {
			return recExpect{EmptyBatch: true, IsArray: true}
		}
		e := recExpect{IsArray: true}
		for _, r := range raws {
			e.Members = append(e.Members, classifyMember(r))
		}
		// members of one batch that share an id all fail with -32600 (duplicate request ID)
		count := map[string]int{}
		for _, m := range e.Members {
			if m.EchoID != "null" {
				count[m.EchoID]++
			}
		}
		for i := range e.Members {
			if m := &e.Members[i]; m.IsCall && count[m.EchoID] > 1 {
				m.DupID = true
			}
		}
		return e
	}
	return recExpect{Members: []memberClass{classifyMember(json.RawMessage(t))}}
}

var c02Known = map[string]bool{"ok": true, "fail": true, "x.rpc.ok": true, "rpcx": true, "failreq": true} // "failreq": its handler fails with the code InvalidRequest // "x.rpc.ok": an ordinary name that merely contains "rpc."

// c02Judge runs one record through a fresh server and compares with the classifier.
// It returns a class string for coverage accounting and the violations.
func c02RunOne(record []byte, push bool, prefix []int, mapOrders bool) (*vs.Exec, []Viol, string) {
	var invoked []string
	body := func() {
		lib, peer, _ := NewPipe(PipeOpts{Name: "srv", CloseUnblocksRecv: true})
		hd := func(ctx context.Context, req *jrpc2.Request) (any, error) {
			vs.Note("h_enter", req.Method(), req.ID(), req.ParamString())
			invoked = append(invoked, req.Method())
			if req.Method() == "fail" {
				return nil, jrpc2.Errorf(99, "failed")
			}
			if req.Method() == "failreq" {
				return nil, jrpc2.Errorf(jrpc2.InvalidRequest, "upstream rejected it") // a notification stays unanswered all the same
			}
			return "R", nil
		}
		asg := assignerFunc(func(ctx context.Context, m string) jrpc2.Handler {
			// the assigner would serve every rpc.* name: with the built-ins on, none may reach it
			if c02Known[m] || m == "probe" || strings.HasPrefix(m, "rpc.") {
				return hd
			}
			return nil
		})
		srv := jrpc2.NewServer(asg, &jrpc2.ServerOptions{Concurrency: 1, AllowPush: push})
		srv.Start(lib)
		vs.GoNamed("peer", func() {
			vs.MapOrderChoices = mapOrders
			peer.Send(record)
			vs.AwaitQuiescence()
			vs.MapOrderChoices = false
			vs.Note("quiet", "after-input")
			peer.Send([]byte(`{"jsonrpc":"2.0","id":"probe","method":"probe"}`))
			vs.AwaitQuiescence()
			vs.Note("quiet", "after-probe")
			// every id the record used is free again once the record has been answered: whatever became
			// of the member that carried it (served, unknown method, invalid, refused as duplicate)
			for _, m := range classifyRecord(record).Members {
				if (m.IsCall || m.Invalid) && m.EchoID != "" && m.EchoID != "null" {
					peer.Send([]byte(`{"jsonrpc":"2.0","id":` + m.EchoID + `,"method":"probe"}`))
					vs.AwaitQuiescence()
					vs.Note("reuse-probe", m.EchoID)
				}
			}
			vs.Note("quiet", "after-reuse")
			peer.Close()
		})
		st := srv.WaitStatus()
		vs.Note("status", fmt.Sprintf("closed=%v err=%v", st.Closed, st.Err))
	}
	vs.MapOrderChoices = mapOrders
	x := vs.Run(prefix, body)
	vs.MapOrderChoices = false
	var v []Viol
	in := string(record)
	if len(in) > 200 {
		in = in[:200] + "..."
	}
	fail := func(rule, msg string) { v = append(v, Viol{rule, msg}) }
	if x.Outcome != "ok" {
		fail("G1", fmt.Sprintf("server did not survive the record: outcome %s %s at %s", x.Outcome, firstLine(x.Detail), panicSite(x.Stack)))
		return x, v, "crash"
	}
	q1 := findEv(x, 0, "quiet", "after-input")
	var outs []outRec
	var probeOuts []outRec
	for _, o := range outEvents(x, "srv") {
		if o.At < q1 {
			outs = append(outs, o)
		} else {
			probeOuts = append(probeOuts, o)
		}
	}
	// ids are free again after the record
	if q2 := findEv(x, 0, "quiet", "after-probe"); q2 >= 0 {
		var rest []outRec
		for _, o := range probeOuts {
			if o.At < q2 {
				rest = append(rest, o)
				continue
			}
			if strings.Contains(o.Raw, `"error"`) {
				fail("C02.R1", "after the record had been answered, a call re-using an id of one of its members was refused: "+o.Raw)
			}
		}
		probeOuts = rest
	}
	// R5: still serving
	if len(probeOuts) != 1 || !strings.Contains(probeOuts[0].Raw, `"id":"probe"`) || !strings.Contains(probeOuts[0].Raw, `"result"`) {
		fail("C02.R5", "after the record the server no longer answers a call")
	}
	exp := classifyRecord(record)
	// handler invocations before the probe
	var hEnters []vs.Ev
	for i, e := range x.Log {
		if e.K == "h_enter" && i < q1 {
			hEnters = append(hEnters, e)
		}
	}
	// R4: everything emitted is a well-formed response
	var got []RMsg
	gotArray := false
	if len(outs) > 1 {
		fail("C02.R1", fmt.Sprintf("%d outbound messages for one inbound record", len(outs)))
	}
	for _, o := range outs {
		ms, isArr, err := parseRecord([]byte(o.Raw))
		if err != nil {
			fail("C02.R4", "emitted record is not JSON-RPC: "+o.Raw)
			continue
		}
		gotArray = isArr
		if len(ms) == 0 {
			fail("C02.R4", "emitted record is not a JSON-RPC message (an array without members): "+o.Raw)
		}
		for _, m := range ms {
			if err := wellFormedResponse(m); err != nil {
				fail("C02.R4", "emitted message is not a valid response: "+err.Error())
			}
			got = append(got, m)
		}
	}
	codeOf := func(m RMsg) int { c, _ := m.ErrCode(); return c }
	class := ""
	switch {
	case exp.NotJSON:
		class = "notjson"
		if len(got) != 1 || got[0].ID() != "null" || codeOf(got[0]) != -32700 {
			fail("C02.R1", fmt.Sprintf("undecodable JSON must yield one error with id null and code -32700, got %s", rawOuts(outs)))
		}
		if len(hEnters) != 0 {
			fail("C02.R3", "a handler ran for an undecodable record")
		}
	case exp.EmptyBatch:
		class = "emptybatch"
		if len(got) != 1 || got[0].ID() != "null" || codeOf(got[0]) != -32600 {
			fail("C02.R1", fmt.Sprintf("an empty array must yield one error with id null and code -32600, got %s", rawOuts(outs)))
		}
	default:
		// walk members and responses in parallel
		gi := 0
		wantHandlers := 0
		var cls []string
		for mi, m := range exp.Members {
			next := func() *RMsg {
				if gi < len(got) {
					gi++
					return &got[gi-1]
				}
				return nil
			}
			switch {
			case m.Invalid:
				if m.ReplyLike && push {
					if m.Unclear {
						cls = append(cls, "replylike?")
						// may be dropped or answered with an error for its id
						if gi < len(got) && got[gi].Has("error") && (codeOf(got[gi]) == -32600 || codeOf(got[gi]) == -32700) && jsonEqual([]byte(got[gi].ID()), []byte(m.EchoID)) {
							// peek: is this response plausibly for this member? only if the remaining responses cannot all be matched otherwise
							remainingNeed := 0
							for _, mm := range exp.Members[mi+1:] {
								if (mm.Invalid && !(mm.ReplyLike && push)) || mm.IsCall {
									remainingNeed++
								}
							}
							if len(got)-gi > remainingNeed {
								gi++
							}
						}
						continue
					}
					cls = append(cls, "replylike-dropped")
					continue // silence
				}
				cls = append(cls, fmt.Sprintf("invalid%d", min3(m.Defects)))
				r := next()
				if r == nil {
					fail("C02.R1", fmt.Sprintf("member %d is invalid but no error object was emitted at its position (output %s)", mi, rawOuts(outs)))
					continue
				}
				if c, ok := r.ErrCode(); !ok || (c != -32700 && c != -32600) {
					fail("C02.R1", fmt.Sprintf("member %d is invalid: want an error with code -32700 or -32600, got %s", mi, r.Raw))
				}
				if !jsonEqual([]byte(r.ID()), []byte(m.EchoID)) {
					fail("C02.R2", fmt.Sprintf("member %d: error must echo id %s, got %s", mi, m.EchoID, r.ID()))
				}
			case m.IsCall:
				r := next()
				known := c02Known[m.Method]
				builtin := strings.HasPrefix(m.Method, "rpc.")
				cls = append(cls, "call:"+methodClass(m.Method))
				if r == nil {
					fail("C02.R1", fmt.Sprintf("call member %d (id %s) got no response (output %s)", mi, m.EchoID, rawOuts(outs)))
					if known && !builtin && !m.DupID {
						wantHandlers++
					}
					continue
				}
				if !jsonEqual([]byte(r.ID()), []byte(m.EchoID)) {
					fail("C02.R2", fmt.Sprintf("member %d: response must carry id %s, got %s", mi, m.EchoID, r.ID()))
				}
				switch {
				case m.DupID:
					if codeOf(*r) != -32600 {
						fail("C02.R1", fmt.Sprintf("member %d shares its id with another member of the batch: want -32600, got %s", mi, r.Raw))
					}
				case m.Method == "rpc.serverInfo":
					if !r.Has("result") {
						fail("C02.R1", "rpc.serverInfo must be answered with a result: "+string(r.Raw))
					}
				case builtin || !known:
					if codeOf(*r) != -32601 {
						fail("C02.R1", fmt.Sprintf("unknown or reserved method %q must yield -32601, got %s", m.Method, r.Raw))
					}
				case m.Method == "ok" || m.Method == "x.rpc.ok" || m.Method == "rpcx":
					wantHandlers++
					if r.Str("result") != `"R"` {
						fail("C02.R1", fmt.Sprintf("call of %q must yield the handler's result, got %s", m.Method, r.Raw))
					}
				case m.Method == "failreq":
					wantHandlers++
					if codeOf(*r) != -32600 {
						fail("C02.R1", fmt.Sprintf("call of %q must yield the handler's error, got %s", m.Method, r.Raw))
					}
				case m.Method == "fail":
					wantHandlers++
					if codeOf(*r) != 99 {
						fail("C02.R1", fmt.Sprintf("call of %q must yield the handler's error, got %s", m.Method, r.Raw))
					}
				}
			case m.IsNote:
				cls = append(cls, "note:"+methodClass(m.Method))
				if c02Known[m.Method] {
					wantHandlers++
				}
			}
		}
		if gi < len(got) {
			fail("C02.R1", fmt.Sprintf("unexpected extra response(s): %s", rawOuts(outs)))
		}
		if len(got) > 0 && gotArray != exp.IsArray {
			fail("C02.R1", fmt.Sprintf("response envelope array=%v for an inbound record with array=%v", gotArray, exp.IsArray))
		}
		if len(hEnters) != wantHandlers {
			fail("C02.R3", fmt.Sprintf("%d handler invocations, expected %d (handlers must run exactly for the valid requests of known methods)", len(hEnters), wantHandlers))
		}
		// params as delivered to the handlers (members of a batch run concurrently: compared as multisets)
		wantP, gotP := map[string]int{}, map[string]int{}
		for _, m := range exp.Members {
			if (m.IsCall || m.IsNote) && c02Known[m.Method] && !m.DupID {
				wantP[m.Method+" "+canonJSON(m.Params)]++
			}
		}
		for _, e := range hEnters {
			gotP[e.Arg(0)+" "+canonJSON(e.Arg(2))]++
		}
		for k, n := range wantP {
			if gotP[k] != n {
				fail("C02.R3", fmt.Sprintf("handler invocations with (method params) %q: %d, expected %d", k, gotP[k], n))
			}
		}
		class = strings.Join(cls, ",")
		if exp.IsArray {
			class = "[" + class + "]"
		}
	}
	for i := range v {
		v[i].Msg = fmt.Sprintf("record %s (push=%v): %s", in, push, v[i].Msg)
	}
	return x, v, class
}

func canonJSON(s string) string {
	if s == "" {
		return ""
	}
	var v any
	if json.Unmarshal([]byte(s), &v) != nil {
		return s
	}
	b, _ := json.Marshal(v)
	return string(b)
}

func min3(n int) int {
	if n > 3 {
		return 3
	}
	return n
}

func methodClass(m string) string {
	switch {
	case c02Known[m]:
		return m
	case m == "rpc.serverInfo":
		return "info"
	case strings.HasPrefix(m, "rpc."):
		return "reserved"
	}
	return "unknown"
}

func rawOuts(outs []outRec) string {
	var s []string
	for _, o := range outs {
		s = append(s, o.Raw)
	}
	if len(s) == 0 {
		return "(nothing)"
	}
	return strings.Join(s, " ")
}

type assignerFunc func(context.Context, string) jrpc2.Handler

func (f assignerFunc) Assign(ctx context.Context, m string) jrpc2.Handler { return f(ctx, m) }

// c02Explore runs a record under the default key order and, when asked, under every
// alternative map order (environment choices); schedules are the default ones.
func c02Explore(r *SeqRun, record []byte, push, allOrders bool) {
	var rec func(prefix []int)
	rec = func(prefix []int) {
		x, viols, class := c02RunOne(record, push, prefix, allOrders)
		r.Calls(x.Steps)
		r.Case(fmt.Sprintf("push=%v/%s", push, class), class != "call:ok" && class != "")
		for _, vi := range viols {
			r.Fail(vi.Rule, string(record), vi.Msg, "")
		}
		if !allOrders {
			return
		}
		for i := len(prefix); i < len(x.Points); i++ {
			pt := x.Points[i]
			if pt.Kind != vs.PEnv || !strings.HasPrefix(pt.Desc, "map-order") {
				continue
			}
			for alt := 1; alt < pt.N; alt++ {
				np := make([]int, i+1)
				for j := 0; j < i; j++ {
					np[j] = x.Points[j].Chosen
				}
				np[i] = alt
				rec(np)
			}
		}
	}
	rec(nil)
}

var (
	c02Ver    = []string{"", `"jsonrpc":"2.0"`, `"jsonrpc":"1.0"`, `"jsonrpc":2`, `"jsonrpc":null`, `"jsonrpc":["2.0"]`, `"JSONRPC":"2.0"`}
	c02ID     = []string{"", `"id":7`, `"id":-3`, `"id":0`, `"id":1.5`, `"id":1e3`, `"id":"s"`, `"id":""`, `"id":"1"`, `"id":null`, `"id":true`, `"id":[1]`, `"id":{}`, `"ID":7`, `"id":3,"Id":4`}
	c02Method = []string{"", `"method":"ok"`, `"method":"fail"`, `"method":""`, `"method":"nope"`, `"method":"rpc.serverInfo"`, `"method":"rpc.nope"`, `"method":"rpc.a.b"`, `"method":"x.rpc.ok"`, `"method":"rpcx"`, `"method":"failreq"`, `"method":5`, `"method":null`, `"method":["ok"]`, `"Method":"ok"`, `"method":"ok","METHOD":"nope"`}
	c02Params = []string{"", `"params":[]`, `"params":[1]`, `"params":{}`, `"params":{"a":1}`, `"params":null`, `"params":0`, `"params":"s"`, `"params":true`}
	c02Extra  = []string{"", `"x":1`, `"result":1`, `"result":null`, `"error":{"code":1,"message":"m"}`, `"error":5`}
)

func c02Member(ver, id, method, params, extra string) string {
	var parts []string
	for _, p := range []string{ver, id, method, params, extra} {
		if p != "" {
			parts = append(parts, p)
		}
	}
	return "{" + strings.Join(parts, ",") + "}"
}

func c02Fields(ver string, push bool, orders string) *Scenario {
	return &Scenario{
		Name:   fmt.Sprintf("single members: all field variants with %s push=%v key-orders=%s", map[bool]string{true: ver, false: "no jsonrpc"}[ver != ""], push, orders),
		Params: map[string]any{"jsonrpc": ver, "id": c02ID, "method": c02Method, "params": c02Params, "extra": c02Extra, "push": push, "envelopes": []string{"object", "one-element array"}, "key_orders": orders},
		Seq: func(r *SeqRun) {
			for _, id := range c02ID {
				for _, m := range c02Method {
					for _, p := range c02Params {
						if r.Expired() {
							return
						}
						for _, e := range c02Extra {
							mem := c02Member(ver, id, m, p, e)
							all := false
							switch orders {
							case "all":
								all = true
							case "multi-defect":
								all = classifyMember(json.RawMessage(mem)).Defects >= 2
							}
							c02Explore(r, []byte(mem), push, all)
							c02Explore(r, []byte("["+mem+"]"), push, false)
						}
					}
				}
			}
			r.Sample(map[string]any{"record": c02Member(ver, `"id":7`, `"method":5`, `"params":0`, `"x":1`), "push": push})
		},
	}
}

// representatives of every member class for batches
func c02Reps() []string {
	return []string{
		`{"jsonrpc":"2.0","id":1,"method":"ok"}`, `{"jsonrpc":"2.0","id":2,"method":"ok","params":[1]}`, `{"jsonrpc":"2.0","id":"a","method":"fail"}`,
		`{"jsonrpc":"2.0","method":"ok"}`, `{"jsonrpc":"2.0","id":null,"method":"ok","params":{"a":1}}`, `{"jsonrpc":"2.0","method":"nope"}`,
		`{"jsonrpc":"2.0","id":3,"method":"nope"}`, `{"jsonrpc":"2.0","id":4,"method":"rpc.serverInfo"}`, `{"jsonrpc":"2.0","id":5,"method":"rpc.nope"}`, `{"jsonrpc":"2.0","method":"rpc.nope"}`, `{"jsonrpc":"2.0","method":"failreq"}`, `{"jsonrpc":"2.0","id":null,"method":"failreq"}`, `{"jsonrpc":"2.0","id":15,"method":"rpc.serverInfo.x"}`, `{"jsonrpc":"2.0","method":"rpc.a.b.c"}`, `{"jsonrpc":"2.0","id":16,"method":"rpc."}`,
		`{"jsonrpc":"1.0","id":6,"method":"ok"}`, `{"id":7,"method":"ok"}`, `{"jsonrpc":"2.0","id":8,"method":""}`, `{"jsonrpc":"2.0","id":9,"method":5}`,
		`{"jsonrpc":"2.0","id":10,"method":"ok","params":0}`, `{"jsonrpc":"2.0","id":true,"method":"ok"}`, `{"jsonrpc":"2.0","id":11,"method":"ok","x":1}`,
		`{"jsonrpc":"2.0","id":12,"method":"ok","result":1}`, `{"jsonrpc":"2.0","id":13,"result":1}`, `{"jsonrpc":"2.0","id":14,"error":{"code":1,"message":"m"}}`,
		`{"jsonrpc":"1.0","method":"ok"}`, `{"jsonrpc":"2.0","method":"ok","params":"s"}`, `{}`, `5`, `"s"`, `null`, `true`, `[]`, `[[]]`, `{"jsonrpc":"2.0","id":1.5,"method":"ok"}`,
	}
}

func c02Batches(push bool) *Scenario {
	return &Scenario{
		Name:   fmt.Sprintf("batches: all ordered pairs of %d class representatives push=%v", len(c02Reps()), push),
		Params: map[string]any{"representatives": c02Reps(), "push": push},
		Seq: func(r *SeqRun) {
			reps := c02Reps()
			for _, a := range reps {
				if r.Expired() {
					return
				}
				for _, b := range reps {
					c02Explore(r, []byte("["+a+","+b+"]"), push, false)
				}
				c02Explore(r, []byte("["+a+"]"), push, false)
				c02Explore(r, []byte(a), push, false)
				c02Explore(r, []byte("["+a+","+a+","+reps[0]+"]"), push, false)
				c02Explore(r, []byte("["+a+","+a+","+a+"]"), push, false)
				c02Explore(r, []byte("["+a+","+reps[0]+","+a+","+a+","+a+"]"), push, false)
			}
			r.Sample(map[string]any{"record": "[" + reps[10] + "," + reps[3] + "]", "push": push})
		},
	}
}

func c02Envelopes(maxLen int, first byte, push bool) *Scenario {
	alpha := []byte(`{}[]":,1an `)
	return &Scenario{
		Name:   fmt.Sprintf("envelopes: every byte string of length<=%d over {}[]\":,1an SP starting with %q push=%v", maxLen, string(first), push),
		Params: map[string]any{"alphabet": string(alpha), "max_length": maxLen, "first": string(first), "push": push},
		Seq: func(r *SeqRun) {
			var rec func(cur []byte)
			rec = func(cur []byte) {
				if r.Expired() {
					return
				}
				c02Explore(r, cur, push, false)
				if len(cur) < maxLen {
					for _, c := range alpha {
						rec(append(append([]byte(nil), cur...), c))
					}
				}
			}
			rec([]byte{first})
			if first == '{' {
				c02Explore(r, []byte{}, push, false) // the empty record
				c02Explore(r, []byte("  "), push, false)
			}
			r.Sample(map[string]any{"record": `[1,"`, "push": push})
		},
	}
}

// c02Exotic: method names and string ids containing every code point up to U+00FF (escaped),
// raw DEL, line separators and astral non-printable runes: the error replies quote these strings
// ("data"), so each must still produce its well-formed reply.
func c02Exotic(push bool) *Scenario {
	return &Scenario{
		Name:   fmt.Sprintf("exotic strings: unknown-method and duplicate-id members with every code point <= U+00FF, DEL, U+2028, astral runes push=%v", push),
		Params: map[string]any{"push": push, "shapes": []string{"call", "notification", "[call, valid call]", "[two calls sharing the string id]"}},
		Seq: func(r *SeqRun) {
			var chars []string
			for cp := 1; cp <= 0xff; cp++ {
				chars = append(chars, fmt.Sprintf("\\u%04x", cp))
			}
			chars = append(chars, "\x7f", "\u2028", "\\u2028", "\\udb40\\udc01", "\U000e0001", "\\ufffe", "\u0080", "\\\"", "\\\\", "\\/")
			for _, ch := range chars {
				if r.Expired() {
					return
				}
				call := `{"jsonrpc":"2.0","id":1,"method":"no` + ch + `such"}`
				c02Explore(r, []byte(call), push, false)
				c02Explore(r, []byte(`{"jsonrpc":"2.0","method":"no`+ch+`such"}`), push, false)
				c02Explore(r, []byte(`[`+call+`,{"jsonrpc":"2.0","id":2,"method":"ok"}]`), push, false)
				c02Explore(r, []byte(`{"jsonrpc":"2.0","id":3,"method":"rpc.`+ch+`"}`), push, false)
				dup := `{"jsonrpc":"2.0","id":"d` + ch + `","method":"ok"}`
				c02Explore(r, []byte(`[`+dup+`,`+dup+`]`), push, false)
				c02Explore(r, []byte(dup), push, false)
			}
			r.Sample(map[string]any{"record": `{"jsonrpc":"2.0","id":1,"method":"no\u001bsuch"}`, "push": push})
		},
	}
}

// c02Whitespace: JSON white space (SP, TAB, LF, CR and mixtures) before, after and inside the
// envelope of class representatives: insignificant to JSON, so the classification must not change.
func c02Whitespace(push bool) *Scenario {
	return &Scenario{
		Name:   fmt.Sprintf("white space around and inside envelopes (SP TAB LF CR CRLF mixed) push=%v", push),
		Params: map[string]any{"push": push, "white_space": []string{" ", "\t", "\n", "\r", "\r\n", " \r\n\t "}},
		Seq: func(r *SeqRun) {
			reps := c02Reps()
			objs := []string{reps[0], reps[3], reps[6], reps[10], reps[18]}
			for _, ws := range []string{" ", "\t", "\n", "\r", "\r\n", " \r\n\t "} {
				if r.Expired() {
					return
				}
				for i, o := range objs {
					o2 := objs[(i+1)%len(objs)]
					for _, rec := range []string{
						ws + o, o + ws, ws + o + ws,
						ws + "[" + o + "]", "[" + o + "]" + ws, "[" + ws + o + ws + "]",
						ws + "[" + ws + o + ws + "," + ws + o2 + ws + "]" + ws,
						strings.Replace(o, ":", ws+":"+ws, -1), strings.Replace(o, ",", ws+","+ws, -1),
					} {
						c02Explore(r, []byte(rec), push, false)
					}
				}
				for _, rec := range []string{ws + "[]", "[" + ws + "]", ws + "[]" + ws, ws + "5", ws + "null", ws, ws + ws, ws + "{}", ws + "[[]]"} {
					c02Explore(r, []byte(rec), push, false)
				}
			}
			// characters that Go (unicode.IsSpace, bytes.TrimSpace) treats as space but JSON does not: with one of
			// them before or after the envelope the record is not JSON
			for _, ns := range []string{"\v", "\f", "\u0085", "\u00a0", "\u2028", "\u3000", "\ufeff", "\x00"} {
				for _, o := range objs[:2] {
					for _, rec := range []string{ns + o, o + ns, ns + "[" + o + "]", "[" + o + "]" + ns, "[" + ns + o + "]", ns} {
						c02Explore(r, []byte(rec), push, false)
					}
				}
			}
			r.Sample(map[string]any{"record": "\r\n[ {\"jsonrpc\":\"2.0\",\"id\":1,\"method\":\"ok\"} ]\r\n", "push": push})
		},
	}
}

// c02EndedContext: a server whose base context (ServerOptions.NewContext) has already ended, or ends
// half-way: requests are refused or cancelled, but the server keeps answering every record.
func c02EndedContext(push bool) *Scenario {
	return &Scenario{
		Name:   fmt.Sprintf("base context already ended / ending half-way: class representatives and batches, a probe call after each push=%v", push),
		Params: map[string]any{"push": push, "records": len(c02Reps())},
		Seq: func(r *SeqRun) {
			reps := c02Reps()
			var recs []string
			for i, a := range reps {
				recs = append(recs, a, "["+a+","+reps[(i+3)%len(reps)]+"]")
			}
			for _, cancelAt := range []int{0, len(recs) / 2} {
				answered := make([]int, len(recs))
				x := vs.Run(nil, func() {
					lib, peer, _ := NewPipe(PipeOpts{Name: "srv", CloseUnblocksRecv: true, Quiet: true})
					hd := func(ctx context.Context, req *jrpc2.Request) (any, error) { return "R", nil }
					asg := assignerFunc(func(ctx context.Context, m string) jrpc2.Handler {
						if c02Known[m] || m == "probe" || strings.HasPrefix(m, "rpc.") {
							return hd
						}
						return nil
					})
					base, cancel := cancelCauseCtx()
					defer cancel()
					srv := jrpc2.NewServer(asg, &jrpc2.ServerOptions{Concurrency: 1, AllowPush: push, NewContext: func() context.Context { return base }})
					srv.Start(lib)
					for i, rec := range recs {
						if i == cancelAt {
							cancel()
						}
						peer.Send([]byte(rec))
						vs.AwaitQuiescence()
						for {
							if _, ok := peer.TryRecv(); !ok {
								break
							}
						}
						peer.Send([]byte(fmt.Sprintf(`{"jsonrpc":"2.0","id":"probe%d","method":"probe"}`, i)))
						vs.AwaitQuiescence()
						for {
							out, ok := peer.TryRecv()
							if !ok {
								break
							}
							if strings.Contains(string(out), fmt.Sprintf(`"id":"probe%d"`, i)) {
								answered[i]++
							}
						}
					}
					peer.Close()
					srv.WaitStatus()
				})
				r.Calls(x.Steps)
				if x.Outcome != "ok" {
					r.Fail("G1", fmt.Sprintf("base context ended before record %d", cancelAt), "server run ended with "+x.Outcome+" "+firstLine(x.Detail)+" "+panicSite(x.Stack), "")
					continue
				}
				for i, rec := range recs {
					r.Case(fmt.Sprintf("ended-ctx/%d", answered[i]), true)
					Hit("C02.R5")
					if answered[i] != 1 {
						r.Fail("C02.R5", rec, fmt.Sprintf("after this record (base context ended before record %d) the probe call was answered %d times: the server no longer serves", cancelAt, answered[i]), "")
						break
					}
				}
			}
			r.Sample(map[string]any{"record": reps[3], "then": "probe call"})
		},
	}
}

func c02Scenarios(tier string) []*Scenario {
	var out []*Scenario
	q := tier == "quick"
	for _, push := range []bool{false, true} {
		for _, ver := range c02Ver {
			orders := "multi-defect"
			if q {
				orders = "default"
				if ver == `"jsonrpc":"2.0"` || ver == `"jsonrpc":2` {
					orders = "multi-defect"
				}
			}
			if q && push && ver != `"jsonrpc":"2.0"` && ver != "" {
				continue
			}
			out = append(out, c02Fields(ver, push, orders))
		}
		out = append(out, c02Batches(push), c02Exotic(push), c02Whitespace(push), c02EndedContext(push))
		ml := 4
		if !q {
			ml = 5
		}
		for _, c := range []byte(`{}[]":,1an `) {
			if q && push && c != '[' && c != '{' {
				continue
			}
			out = append(out, c02Envelopes(ml, c, push))
		}
	}
	return out
}
