package main

import (
	"context"
	"fmt"
	"strings"

	"github.com/creachadair/jrpc2"
	"verif/vs"
)

// C03 — a notification completes before any later-arriving request starts;
// a running call does not delay later requests (up to the concurrency limit).

func init() { register("C03", c03Scenarios) }

// extra environment thread racing with the traffic
const (
	xNone   = ""
	xCancel = "cancel" // CancelRequest of the first call id at an arbitrary point
	xStop   = "stop"   // Stop at an arbitrary point (ordering must hold for whatever runs)
	xNotify = "notify" // server push Notify at an arbitrary point (push-enabled server)
	xEOF    = "eof"    // the peer hangs up right after its last message (whatever is still queued then)
)

func c03Seq(tokens []string, conc int, extra string, b Bounds) *Scenario {
	name := fmt.Sprintf("seq{%s} conc=%d", tokensName(tokens), conc)
	if extra != "" {
		name += " +" + extra
	}
	return &Scenario{
		Name:   name,
		Params: map[string]any{"messages": tokens, "concurrency": conc, "extra": extra},
		Bounds: b,
		New: func() *Instance {
			h := &seqHarness{msgs: buildSeq(tokens), gates: NewGates()}
			body := func() {
				lib, peer, pipe := NewPipe(PipeOpts{Name: "srv", CloseUnblocksRecv: true})
				h.pipe, h.peer = pipe, peer
				// the assigner lists its methods: the one place inside the built-in rpc.serverInfo that can be observed
				srv := jrpc2.NewServer(namerAssigner{anyAssigner{h.handler()}}, &jrpc2.ServerOptions{Concurrency: conc, AllowPush: extra == xNotify})
				srv.Start(lib)
				vs.GoNamed("peer", func() {
					for i, m := range h.msgs {
						peer.Send([]byte(m.JSON))
						vs.Note("in", fmt.Sprint(i))
					}
					if extra != xEOF {
						vs.AwaitQuiescence()
						vs.Note("quiet")
					}
					peer.Close()
				})
				switch extra {
				case xCancel:
					vs.GoNamed("cancel", func() { srv.CancelRequest("1") })
				case xStop:
					vs.GoNamed("stop", func() { srv.Stop() })
				case xNotify:
					vs.GoNamed("push", func() { srv.Notify(context.Background(), "pushed", nil) })
				}
				st := srv.WaitStatus()
				vs.Note("status", fmt.Sprintf("stopped=%v closed=%v err=%v", st.Stopped, st.Closed, st.Err))
			}
			check := func(x *vs.Exec) []Viol {
				v := genericRules(x, nil)
				enter := map[string]int{}
				exit := map[string]int{}
				for i, e := range x.Log {
					switch e.K {
					case "h_enter":
						enter[e.Arg(0)] = i
					case "h_exit":
						exit[e.Arg(0)] = i
					}
				}
				for i, mi := range h.msgs {
					for _, n := range mi.Members {
						if n.Kind != 'n' && n.Kind != 'z' {
							continue
						}
						for j := i + 1; j < len(h.msgs); j++ {
							for _, r := range h.msgs[j].Members {
								if r.Kind == 'i' {
									// a built-in has no harness handler; its reply is the observable: it must not be
									// produced while the earlier notification is still running
									for _, o := range outEvents(x, "srv") {
										ms, _, _ := parseRecord([]byte(o.Raw))
										for _, m := range ms {
											if m.ID() == r.ID && m.Has("result") {
												Hit("C03.R1")
												if exn, exited := exit[n.Method]; !exited || exn > o.At {
													v = append(v, Viol{"C03.R1", fmt.Sprintf("the built-in %s (message %d) was answered before notification %s (message %d) had returned", r.Method, j, n.Method, i)})
												}
											}
										}
									}
								}
								if !r.hasHandler() {
									continue
								}
								en, entered := enter[r.Method]
								if !entered {
									continue // never started (only possible with +stop); nothing to order
								}
								Hit("C03.R1")
								exn, exited := exit[n.Method]
								if !exited || exn > en {
									v = append(v, Viol{"C03.R1", fmt.Sprintf("handler of %s (message %d) entered before notification %s (message %d) had returned", r.Method, j, n.Method, i)})
								}
							}
						}
					}
				}
				// the built-in's own work (reading the method list for its report) is its handler: it must not
				// happen while a notification of an earlier message is still running
				firstI := -1
				for j, mj := range h.msgs {
					for _, r := range mj.Members {
						if r.Kind == 'i' && firstI < 0 {
							firstI = j
						}
					}
				}
				for at, e := range x.Log {
					if e.K != "names" || firstI < 0 {
						continue
					}
					for i := 0; i < firstI; i++ {
						for _, n := range h.msgs[i].Members {
							if n.Kind != 'n' && n.Kind != 'z' {
								continue
							}
							Hit("C03.R1")
							if exn, exited := exit[n.Method]; !exited || exn > at {
								v = append(v, Viol{"C03.R1", fmt.Sprintf("the built-in rpc.serverInfo (message %d) read the method list for its report before notification %s (message %d) had returned", firstI, n.Method, i)})
							}
						}
					}
				}
				if extra != xStop && extra != xEOF && x.Outcome == "ok" {
					// non-vacuity: without a racing Stop every handler must have run before the quiet point
					for _, m := range h.msgs {
						for _, r := range m.Members {
							if r.hasHandler() && r.Kind != 'd' && !(extra == xCancel && r.ID == "1") {
								Hit("C03.R0")
								if _, ok := exit[r.Method]; !ok {
									v = append(v, Viol{"C03.R0", fmt.Sprintf("handler of %s never ran although the connection stayed up until quiescence", r.Method)})
								}
							}
						}
					}
				}
				return v
			}
			return &Instance{Body: body, Check: check}
		},
	}
}

// c03Gate: call A is gated until the handler of a request from a LATER message
// has entered; if the server held later requests behind a running call the
// execution ends in a deadlock.
func c03Gate(later string, conc int, b Bounds) *Scenario { return c03GateX("g", later, conc, b) }

// first: the message holding the gated call ("g", or a batch such as "[gn]" / "[ng]": a call that shares
// its message with a notification must not hold later requests back once the notification has returned).
func c03GateX(first, later string, conc int, b Bounds) *Scenario {
	tokens := []string{first, later}
	return &Scenario{
		Name:   fmt.Sprintf("gate{%s %s} conc=%d", first, later, conc),
		Params: map[string]any{"messages": tokens, "concurrency": conc},
		Bounds: b,
		New: func() *Instance {
			h := &seqHarness{msgs: buildSeq(tokens), gates: NewGates()}
			gateName := ""
			for _, mem := range h.msgs[0].Members {
				if mem.Kind == 'g' {
					gateName = mem.Method
				}
			}
			inner := h.handler()
			hd := func(ctx context.Context, req *jrpc2.Request) (any, error) {
				if req.Method() != gateName && !strings.HasPrefix(req.Method()[1:], "0_") {
					h.gates.Open(gateName) // a request of a later message has entered
				}
				return inner(ctx, req)
			}
			body := func() {
				lib, peer, _ := NewPipe(PipeOpts{Name: "srv", CloseUnblocksRecv: true})
				srv := jrpc2.NewServer(anyAssigner{hd}, &jrpc2.ServerOptions{Concurrency: conc})
				srv.Start(lib)
				vs.GoNamed("peer", func() {
					for _, m := range h.msgs {
						peer.Send([]byte(m.JSON))
					}
					vs.AwaitQuiescence()
					vs.Note("quiet")
					peer.Close()
				})
				srv.WaitStatus()
			}
			check := func(x *vs.Exec) []Viol {
				v := genericRules(x, nil)
				Hit("C03.R2")
				if findEv(x, 0, "h_exit", gateName) < 0 {
					v = append(v, Viol{"C03.R2", "the running call delayed a later request: gated call never completed"})
				}
				return v
			}
			return &Instance{Body: body, Check: check}
		},
	}
}

// batchGate: ONE batch in which the gated call g returns only once another runnable member of the
// same batch has entered its handler. With enough execution slots every runnable member of a batch
// must be started whatever else the batch holds (failed members in front, behind or between): if one
// member is run to completion before the next is started, the execution deadlocks.
func batchGate(rule, token string, conc int, b Bounds) *Scenario {
	tokens := []string{token}
	return &Scenario{
		Name:   fmt.Sprintf("one batch %s conc=%d: the gated call returns only after another member of the batch has entered", token, conc),
		Params: map[string]any{"messages": tokens, "concurrency": conc},
		Bounds: b,
		New: func() *Instance {
			h := &seqHarness{msgs: buildSeq(tokens), gates: NewGates()}
			gateName := ""
			for _, mem := range h.msgs[0].Members {
				if mem.Kind == 'g' {
					gateName = mem.Method
				}
			}
			inner := h.handler()
			hd := func(ctx context.Context, req *jrpc2.Request) (any, error) {
				if req.Method() != gateName {
					h.gates.Open(gateName)
				}
				return inner(ctx, req)
			}
			body := func() {
				lib, peer, _ := NewPipe(PipeOpts{Name: "srv", CloseUnblocksRecv: true})
				srv := jrpc2.NewServer(anyAssigner{hd}, &jrpc2.ServerOptions{Concurrency: conc})
				srv.Start(lib)
				vs.GoNamed("peer", func() {
					peer.Send([]byte(h.msgs[0].JSON))
					vs.AwaitQuiescence()
					vs.Note("quiet")
					peer.Close()
				})
				srv.WaitStatus()
			}
			check := func(x *vs.Exec) []Viol {
				v := genericRules(x, nil)
				Hit(rule)
				if findEv(x, 0, "h_exit", gateName) < 0 {
					v = append(v, Viol{rule, "members of one batch were not started side by side although execution slots were free: the gated call never completed"})
				}
				return v
			}
			return &Instance{Body: body, Check: check}
		},
	}
}

func batchGates(rule, tier string) []*Scenario {
	var out []*Scenario
	toks := []string{"[gc]", "[cg]", "[ugc]", "[ucg]", "[uugc]", "[ugcc]", "[gcu]", "[gn]", "[ung]", "[xgc]", "[vgc]", "[ugn]"}
	b := Bounds{1, 1, 0}
	if tier != "quick" {
		b = Bounds{2, -1, 0}
		toks = append(toks, "[uuugc]", "[ugcu]", "[xugcc]", "[yygc]", "[vvgn]")
	}
	for _, t := range toks {
		out = append(out, batchGate(rule, t, 3, b))
	}
	out = append(out, batchGate(rule, "[ugc]", 2, b))
	return out
}

func c03Scenarios(tier string) []*Scenario {
	var out []*Scenario
	out = append(out, batchGates("C03.R2", tier)...)
	core := [][]string{
		{"n", "i"}, {"z", "i"}, {"[nc]", "i"},
		{"z", "z"}, {"z", "c"},
		{"n", "c"}, {"n", "n"}, {"n", "[cc]"}, {"[nc]", "c"}, {"[cn]", "n"}, {"[nn]", "c"}, {"n", "[nc]"},
		{"c", "n", "c"}, {"n", "c", "n"}, {"n", "n", "c"}, {"[nc]", "n", "c"}, {"c", "[nn]", "c"},
	}
	if tier == "quick" {
		for _, t := range core {
			b := Bounds{2, -1, 0}
			if len(t) == 3 {
				b = Bounds{1, -1, 0}
			}
			out = append(out, c03Seq(t, 2, xNone, b))
		}
		out = append(out, c03Seq([]string{"n", "c"}, 3, xNone, Bounds{2, -1, 0}), c03Seq([]string{"n", "i"}, 2, xNone, Bounds{2, -1, 0}))
		// one environment deviation (a wake-up that finds its receiver not parked yet, a buffered send handed over directly)
		out = append(out, c03Seq([]string{"n", "c", "c"}, 2, xNone, Bounds{1, -1, 1}), c03Seq([]string{"c", "n"}, 1, xNone, Bounds{1, -1, 1}))
		// Concurrency 1: ordering must not be left to the execution slot
		for _, t := range [][]string{{"n", "c"}, {"n", "n"}, {"c", "n", "c"}, {"[nc]", "n"}, {"n", "n", "c"}, {"n", "i"}, {"[nn]", "[ic]"}} {
			b := Bounds{2, -1, 0}
			if len(t) == 3 {
				b = Bounds{1, -1, 0}
			}
			out = append(out, c03Seq(t, 1, xNone, b))
		}
		out = append(out, c03Seq([]string{"c", "n", "c"}, 2, xCancel, Bounds{1, -1, 0}))
		out = append(out, c03Seq([]string{"n", "c"}, 2, xStop, Bounds{2, -1, 0}))
		out = append(out, c03Seq([]string{"n", "c"}, 2, xNotify, Bounds{2, -1, 0}))
		// the server ends with several messages still queued: the retained notifications keep their order
		for _, t := range [][]string{{"n", "[n]", "[n]"}, {"[n]", "c", "[n]"}, {"n", "n", "n"}, {"[nn]", "[n]", "n"}} {
			if len(t[0]) < 4 {
				out = append(out, c03Seq(t, 2, xStop, Bounds{1, -1, 0}))
			}
			out = append(out, c03Seq(t, 2, xEOF, Bounds{1, -1, 0}))
		}
		out = append(out, c03Gate("c", 2, Bounds{2, -1, 0}), c03Gate("n", 2, Bounds{2, -1, 0}), c03Gate("[cn]", 3, Bounds{2, -1, 0}))
		out = append(out, c03GateX("[gn]", "c", 3, Bounds{1, -1, 0}), c03GateX("[ng]", "c", 3, Bounds{1, -1, 0}), c03GateX("[gn]", "n", 3, Bounds{1, -1, 0}))
		return out
	}
	for _, t := range core {
		b := Bounds{3, -1, 1}
		if len(t) == 3 {
			b = Bounds{2, -1, 0}
		}
		out = append(out, c03Seq(t, 2, xNone, b))
		out = append(out, c03Seq(t, 3, xNone, Bounds{2, -1, 0}))
		out = append(out, c03Seq(t, 1, xNone, Bounds{2, -1, 0}))
	}
	for _, t := range [][]string{{"n", "[n]", "[n]"}, {"[n]", "c", "[n]"}, {"n", "n", "n"}, {"[nn]", "[n]", "n"}, {"[n]", "[n]", "[n]"}, {"n", "[nc]", "[n]"}} {
		out = append(out, c03Seq(t, 2, xStop, Bounds{2, -1, 0}), c03Seq(t, 2, xEOF, Bounds{2, -1, 0}), c03Seq(t, 1, xStop, Bounds{2, -1, 0}))
	}
	for _, x := range []string{xCancel, xStop, xNotify} {
		out = append(out, c03Seq([]string{"n", "c"}, 2, x, Bounds{3, -1, 0}))
		out = append(out, c03Seq([]string{"c", "n", "c"}, 2, x, Bounds{2, -1, 0}))
		out = append(out, c03Seq([]string{"[nc]", "n"}, 2, x, Bounds{2, -1, 0}))
	}
	out = append(out, c03Seq([]string{"n", "c"}, 2, xNone, Bounds{4, -1, 1}))
	out = append(out, c03Seq([]string{"n"}, 2, xNone, Bounds{-1, -1, -1}), c03Seq([]string{"[nc]"}, 2, xNone, Bounds{-1, -1, -1}))
	out = append(out, c03Gate("c", 2, Bounds{3, -1, 0}), c03Gate("n", 2, Bounds{3, -1, 0}), c03Gate("[cn]", 3, Bounds{3, -1, 0}), c03Gate("[cc]", 3, Bounds{3, -1, 0}))
	for _, f := range []string{"[gn]", "[ng]", "[gnn]"} {
		for _, l := range []string{"c", "n", "[cn]"} {
			out = append(out, c03GateX(f, l, 4, Bounds{2, -1, 0}))
		}
	}
	return out
}
