package main

import (
	"context"
	"encoding/json"
	"fmt"
	"strings"
	"time"

	"github.com/creachadair/jrpc2"
	"verif/vs"
)

// C05 — every client operation completes exactly once under cancel, Close and failure.

func init() { register("C05", c05Scenarios) }

type c05P struct {
	Op      string   // call, callresult, batch, notify
	Items   []string // start order of the threads: "op" and the events
	Unblock bool     // the channel's Close unblocks its Recv
}

func (p c05P) name() string {
	ch := "socket-like"
	if !p.Unblock {
		ch = "direct-like"
	}
	return fmt.Sprintf("%s order=%s %s", p.Op, strings.Join(p.Items, ">"), ch)
}

func has(items []string, s string) bool {
	for _, i := range items {
		if i == s {
			return true
		}
	}
	return false
}

func c05Scenario(p c05P, b Bounds) *Scenario {
	return &Scenario{
		Name:   p.name(),
		Params: map[string]any{"op": p.Op, "start_order": p.Items, "close_unblocks_recv": p.Unblock},
		Bounds: b,
		New: func() *Instance {
			h := &cliHarness{}
			gates := NewGates()
			body := func() {
				lib, peer, pipe := NewPipe(PipeOpts{Name: "cli", CloseUnblocksRecv: p.Unblock})
				h.pipe, h.peer = pipe, peer
				c := jrpc2.NewClient(lib, &jrpc2.ClientOptions{
					OnCancel: func(_ *jrpc2.Client, r *jrpc2.Response) { vs.Event("hook", "OnCancel", r.ID()) },
					OnStop:   func(_ *jrpc2.Client, err error) { vs.Event("hook", "OnStop", errStr(err)) },
					OnCallback: func(ctx context.Context, r *jrpc2.Request) (any, error) {
						vs.Event("hook", "OnCallback", "enter")
						if r.Method() == "upcall" {
							// the handler makes a call of its own with a context that is not the handler's:
							// only the client stopping can end it (the peer never answers "up")
							_, err := h.cli.Call(context.Background(), "up", nil)
							vs.Yield("upcall-ret")
							vs.Note("upcall-ret", errStr(err))
						}
						if r.Method() == "ctxwait" {
							// a handler that returns when its context ends (the documentation promises that the
							// context of a callback handler is cancelled when the client stops)
							vs.Await(func() bool { return ctx.Err() != nil }, "callback ctx done")
						}
						if r.Method() == "gated" {
							// a handler that does not return promptly when its context ends: released only
							// when nothing else can move (in particular while a correct Close is waiting for it)
							gates.Wait("cb")
						}
						vs.Event("hook", "OnCallback", "exit")
						return 1, nil
					},
				})
				h.cli = c
				var ctx context.Context = context.Background()
				var cancel context.CancelFunc
				var d *dctx
				if has(p.Items, "deadline") {
					d = newDctx()
					ctx = d
				} else if has(p.Items, "cancel") {
					ctx, cancel = cancelCauseCtx()
				} else if has(p.Items, "expired") {
					// a deadline that has passed before the operation starts, given with a cause
					var stop context.CancelFunc
					ctx, stop = context.WithDeadlineCause(context.Background(), time.Unix(1, 0), errCause)
					defer stop()
					vs.Event("env", "deadline")
				}
				vs.GoNamed("peer", h.peerLoop)
				var j Join
				for _, it := range p.Items {
					switch it {
					case "op":
						j.Go("op", func() {
							vs.Event("call", "op")
							switch p.Op {
							case "call":
								rsp, err := c.Call(ctx, "m0", nil)
								callRet("op", rsp, err)
							case "callresult":
								var res string
								err := c.CallResult(ctx, "m0", nil, &res)
								if err == nil {
									vs.Yield("ret")
									vs.Note("ret", "op", "ok", "?", `"`+res+`"`)
								} else {
									callRet("op", nil, err)
								}
							case "notify":
								err := c.Notify(ctx, "bn", nil)
								if err == nil {
									vs.Yield("ret")
									vs.Note("ret", "op", "sent")
								} else {
									callRet("op", nil, err)
								}
							case "batch":
								rsps, err := c.Batch(ctx, []jrpc2.Spec{{Method: "m0"}, {Method: "bn", Notify: true}})
								if err != nil {
									callRet("op", nil, err)
									return
								}
								vs.Yield("ret")
								if len(rsps) != 1 {
									vs.Note("ret", "op", "badbatch", fmt.Sprint(len(rsps)))
								} else if e := rsps[0].Error(); e != nil {
									vs.Note("ret", "op", "batcherr", fmt.Sprint(int(e.Code)), e.Message)
								} else {
									vs.Note("ret", "op", "ok", rsps[0].ID(), rsps[0].ResultString())
								}
							}
						})
					case "reply":
						j.Go("reply", func() {
							vs.Await(func() bool { return h.idOf("m0") != "" || h.peerDone || (p.Op == "notify" && len(h.reqs) > 0) }, "await request")
							if id := h.idOf("m0"); id != "" {
								h.send(replyFor("m0", id))
							}
						})
					case "cancel":
						j.Go("cancel", func() { vs.Event("env", "cancel"); cancel() })
					case "deadline":
						j.Go("deadline", func() { vs.Event("env", "deadline"); d.fire() })
					case "close":
						j.Go("close", func() {
							vs.Event("call", "Close")
							err := c.Close()
							vs.Yield("ret")
							vs.Note("ret", "Close", errStr(err))
						})
					case "eof":
						j.Go("eof", func() { vs.Event("env", "eof"); peer.Close() })
					case "recverr":
						j.Go("recverr", func() { vs.Event("env", "recverr"); pipe.FailRecv = errFault })
					case "sendfault":
						j.Go("sendfault", func() { vs.Event("env", "sendfault"); pipe.FailSend = errFault })
					case "malformed":
						j.Go("malformed", func() { vs.Event("env", "malformed"); peer.Send([]byte(`{"jsonrpc":"2.0",`)) })
					case "callback":
						j.Go("callback", func() {
							vs.Event("env", "callback")
							peer.Send([]byte(`{"jsonrpc":"2.0","id":"cb1","method":"srvcall"}`))
						})
					case "ucallback":
						j.Go("ucallback", func() {
							vs.Event("env", "callback")
							peer.Send([]byte(`{"jsonrpc":"2.0","id":"cb3","method":"upcall"}`))
						})
					case "ccallback":
						j.Go("ccallback", func() {
							vs.Event("env", "callback")
							peer.Send([]byte(`{"jsonrpc":"2.0","id":"cb4","method":"ctxwait"}`))
						})
					case "pushnote":
						j.Go("pushnote", func() {
							// a notification pushed by the server; this client has no OnNotify hook
							vs.Event("env", "pushnote")
							peer.Send([]byte(`{"jsonrpc":"2.0","method":"srvnote","params":[1]}`))
						})
					case "badreply":
						j.Go("badreply", func() {
							vs.Await(func() bool { return h.idOf("m0") != "" || h.peerDone || (p.Op == "notify" && len(h.reqs) > 0) }, "await request")
							if id := h.idOf("m0"); id != "" {
								// a reply to the pending id that is not a valid response object
								vs.Event("env", "badreply")
								h.send(fmt.Sprintf(`{"jsonrpc":"2.0","id":%s,"result":"X","extra":1}`, id))
							}
						})
					case "gcallback":
						j.Go("gcallback", func() {
							vs.Event("env", "callback")
							peer.Send([]byte(`{"jsonrpc":"2.0","id":"cb2","method":"gated"}`))
						})
						vs.GoNamed("opener", func() {
							for i := 0; i < 3; i++ {
								vs.AwaitQuiescence()
							}
							vs.Note("env", "gate-open")
							gates.Open("cb")
						})
					}
				}
				vs.AwaitQuiescence()
				vs.Note("quiet", "after-events")
				if j.n > 0 {
					// nothing in this scenario ends the operation: closing the client must
					vs.Event("call", "Close")
					err := c.Close()
					vs.Yield("ret")
					vs.Note("ret", "Close", errStr(err))
				}
				j.Wait()
				if c.IsStopped() {
					before := pipe.NSend
					_, err1 := c.Call(context.Background(), "late", nil)
					err2 := c.Notify(context.Background(), "late", nil)
					vs.Note("post", errStr(err1), errStr(err2), fmt.Sprint(pipe.NSend-before))
				}
				vs.Event("call", "Close")
				err := c.Close()
				vs.Yield("ret")
				vs.Note("ret", "Close", errStr(err))
				vs.AwaitQuiescence()
				n, ok := privLen(c, "pending")
				vs.Note("snapshot", fmt.Sprintf("pending=%d/%v", n, ok))
				vs.Note("final")
			}
			check := func(x *vs.Exec) []Viol { return c05Check(p, x) }
			return &Instance{Body: body, Check: check}
		},
	}
}

func c05Check(p c05P, x *vs.Exec) []Viol {
	v := genericRules(x, nil)
	if x.Outcome != "ok" {
		return v
	}
	before := func(at int, k string, args ...string) bool {
		i := findEv(x, 0, k, args...)
		return i >= 0 && i < at
	}
	// R1: exactly one return
	Hit("C05.R1")
	nret, retAt := 0, -1
	for i, e := range x.Log {
		if e.K == "ret" && e.Arg(0) == "op" {
			nret++
			retAt = i
		}
	}
	if nret != 1 {
		return append(v, Viol{"C05.R1", fmt.Sprintf("the operation returned %d times", nret)})
	}
	ret := x.Log[retAt]
	stopCause := before(retAt, "call", "Close") || before(retAt, "env", "eof") || before(retAt, "env", "recverr") ||
		before(retAt, "env", "malformed") || before(retAt, "env", "sendfault") || before(retAt, "env", "badreply")
	// once the connection has ended (peer hung up, Recv failed, a record that is not JSON arrived) nothing blocks:
	// the operation must be over by the time everything has come to rest, without the harness closing the client
	if !has(p.Items, "close") && !has(p.Items, "callback") && !has(p.Items, "gcallback") && !has(p.Items, "ucallback") && !has(p.Items, "ccallback") {
		cl := findEv(x, 0, "quiet", "after-events")
		for _, cause := range []string{"eof", "recverr", "malformed"} {
			if c := findEv(x, 0, "env", cause); c >= 0 && cl >= 0 && c < cl && retAt > cl {
				Hit("C05.R2")
				v = append(v, Viol{"C05.R2", "the connection had ended (" + cause + "), but the operation returned only after the client was closed by hand"})
			}
		}
	}
	// a request whose Send failed must end at once with an error: nothing else may be needed to release it
	for i, e := range x.Log {
		if e.K == "out" && e.Arg(0) == "cli" && (strings.Contains(e.Arg(1), `"m0"`) || strings.Contains(e.Arg(1), `"bn"`)) && i+1 < len(x.Log) && x.Log[i+1].K == "fault" && x.Log[i+1].Arg(1) == "send" {
			Hit("C05.R2")
			if ret.Arg(1) == "sent" || ret.Arg(1) == "ok" {
				v = append(v, Viol{"C05.R2", "the channel refused the request (Send failed), but the operation reported success: " + ret.Arg(1)})
			}
			if cl := findEv(x, 0, "quiet", "after-events"); cl >= 0 && retAt > cl && !has(p.Items, "close") {
				v = append(v, Viol{"C05.R2", "the channel refused the request (Send failed), but the operation returned only after the client was closed"})
			}
		}
	}
	Hit("C05.R2")
	replied := false
	switch ret.Arg(1) {
	case "ok":
		replied = true
		if !before(retAt, "peer-sent") {
			v = append(v, Viol{"C05.R2", "the operation returned a reply before the peer had sent one"})
		}
		if p.Op != "callresult" && !strings.HasPrefix(ret.Arg(3), `"R:m0:`) {
			v = append(v, Viol{"C05.R2", "the operation returned a result the peer did not send: " + ret.Arg(3)})
		}
	case "sent":
	case "canceled":
		if !before(retAt, "env", "cancel") && !stopCause {
			v = append(v, Viol{"C05.R2", "returned context.Canceled although neither its context nor the client had ended"})
		}
	case "deadline":
		if !before(retAt, "env", "deadline") {
			v = append(v, Viol{"C05.R2", "returned context.DeadlineExceeded although the deadline had not fired"})
		}
	case "batcherr":
		code := ret.Arg(2)
		okc := (code == "-32097" && (before(retAt, "env", "cancel") || stopCause)) ||
			(code == "-32096" && before(retAt, "env", "deadline")) ||
			(code != "-32097" && code != "-32096" && stopCause)
		if !okc {
			v = append(v, Viol{"C05.R2", fmt.Sprintf("batch entry failed with code %s (%s) without a cause", code, ret.Arg(3))})
		}
	case "badbatch":
		v = append(v, Viol{"C05.R2", "Batch returned " + ret.Arg(2) + " responses for one call"})
	default: // err, jerr
		if !stopCause {
			v = append(v, Viol{"C05.R2", fmt.Sprintf("the operation failed with %q although nothing had happened to the client", ret.Arg(2))})
		}
	}
	// R3: operations on a stopped client fail without transmitting
	if i := findEv(x, 0, "post"); i >= 0 {
		Hit("C05.R3")
		e := x.Log[i]
		if e.Arg(0) == "<nil>" || e.Arg(1) == "<nil>" || e.Arg(2) != "0" {
			v = append(v, Viol{"C05.R3", fmt.Sprintf("on a stopped client Call returned %s, Notify returned %s, %s records transmitted", e.Arg(0), e.Arg(1), e.Arg(2))})
		}
	}
	// R4: OnCancel exactly once per request that ended without a reply, never for an answered one
	if p.Op != "notify" {
		Hit("C05.R4")
		id := ""
		transmitted := false
		for _, e := range x.Log {
			if e.K == "peer-saw" && e.Arg(0) == "m0" {
				id = e.Arg(1)
				transmitted = true
			}
		}
		if !transmitted {
			// the peer may not have read it, but the client may still have registered it: look at the out event
			for i, e := range x.Log {
				if e.K == "out" && e.Arg(0) == "cli" && strings.Contains(e.Arg(1), `"m0"`) {
					// registered unless that Send failed
					failed := i+1 < len(x.Log) && x.Log[i+1].K == "fault"
					if !failed && !strings.Contains(ret.Arg(2), "closed") {
						transmitted = true
					}
					ms, _, _ := parseRecord([]byte(e.Arg(1)))
					for _, m := range ms {
						if m.Has("id") {
							id = m.ID()
						}
					}
				}
			}
		}
		n := 0
		for _, e := range x.Log {
			if e.K == "hook" && e.Arg(0) == "OnCancel" && (id == "" || e.Arg(1) == id) {
				n++
			}
		}
		switch {
		case before(retAt, "env", "badreply"):
			// ended by a reply that is not a valid response: whether that counts as "without a reply" is not specified
		case replied && n != 0:
			v = append(v, Viol{"C05.R4", fmt.Sprintf("OnCancel ran %d times for an answered request", n)})
		case !replied && transmitted && n != 1 && before(len(x.Log), "peer-saw", "m0"):
			v = append(v, Viol{"C05.R4", fmt.Sprintf("OnCancel ran %d times for a transmitted request that ended without a reply", n)})
		case n > 1:
			v = append(v, Viol{"C05.R4", fmt.Sprintf("OnCancel ran %d times", n)})
		}
	}
	// R5: OnStop exactly once, with a cause that had occurred
	Hit("C05.R5")
	nstop := 0
	for i, e := range x.Log {
		if e.K == "hook" && e.Arg(0) == "OnStop" {
			nstop++
			msg := e.Arg(1)
			anyCause := before(i, "call", "Close") || before(i, "env", "eof") || before(i, "peer-closed-after-eof") ||
				before(i, "env", "recverr") || before(i, "env", "malformed") || before(i, "env", "sendfault")
			okc := anyCause
			switch {
			case msg == "EOF":
				okc = before(i, "env", "eof") || before(i, "peer-closed-after-eof")
			case msg == errFault.Error():
				okc = before(i, "env", "recverr")
			}
			if !okc {
				v = append(v, Viol{"C05.R5", "OnStop reported " + msg + " before any such cause had occurred"})
			}
		}
	}
	if nstop != 1 {
		v = append(v, Viol{"C05.R5", fmt.Sprintf("OnStop ran %d times", nstop)})
	}
	// R6: Close returns only after all callback handlers have returned
	for i, e := range x.Log {
		if e.K == "ret" && e.Arg(0) == "Close" {
			Hit("C05.R6")
			ent, exi := 0, 0
			for _, f := range x.Log[:i] {
				if f.K == "hook" && f.Arg(0) == "OnCallback" {
					if f.Arg(1) == "enter" {
						ent++
					} else {
						exi++
					}
				}
			}
			if ent != exi {
				v = append(v, Viol{"C05.R6", "Close returned while a callback handler was still running"})
			}
			for _, f := range x.Log[i:] {
				if f.K == "hook" && f.Arg(0) == "OnCallback" && f.Arg(1) == "enter" {
					v = append(v, Viol{"C05.R6", "a callback handler started after Close had returned"})
				}
			}
		}
	}
	// R7: nothing pending at the end
	if s := findEv(x, 0, "snapshot"); s >= 0 {
		Hit("C05.R7")
		if a := x.Log[s].Arg(0); strings.HasSuffix(a, "/true") && a != "pending=0/true" {
			v = append(v, Viol{"C05.R7", "requests still pending after Close: " + a})
		}
	}
	return v
}

func orderings(items []string) [][]string {
	var out [][]string
	for _, pm := range perms(len(items)) {
		var o []string
		for _, i := range pm {
			o = append(o, items[i])
		}
		out = append(out, o)
	}
	return out
}

var c05Events = []string{"reply", "cancel", "deadline", "close", "eof", "recverr", "malformed", "sendfault", "callback", "badreply", "pushnote"}

// c05Batch2: a Batch of two calls whose replies arrive as separate frames, in either order,
// optionally with the batch context cancelled at an arbitrary moment. Every member must end with
// its own reply or a cause that happened; OnCancel runs exactly for the members that ended
// without a reply.
func c05Batch2(items []string, b Bounds) *Scenario {
	return &Scenario{
		Name:   "batch[call,call] replies in separate frames order=" + strings.Join(items, ">"),
		Params: map[string]any{"start_order": items},
		Bounds: b,
		New: func() *Instance {
			h := &cliHarness{}
			body := func() {
				lib, peer, pipe := NewPipe(PipeOpts{Name: "cli", CloseUnblocksRecv: true})
				h.pipe, h.peer = pipe, peer
				c := jrpc2.NewClient(lib, &jrpc2.ClientOptions{
					OnCancel: func(_ *jrpc2.Client, r *jrpc2.Response) { vs.Event("hook", "OnCancel", r.ID()) },
				})
				h.cli = c
				ctx, cancel := cancelCauseCtx()
				defer cancel()
				vs.GoNamed("peer", h.peerLoop)
				var j Join
				for _, it := range items {
					switch it {
					case "op":
						j.Go("op", func() {
							vs.Event("call", "op")
							rsps, err := c.Batch(ctx, []jrpc2.Spec{{Method: "m0"}, {Method: "m1"}})
							vs.Yield("ret")
							if err != nil {
								vs.Note("ret", "op", "err", err.Error())
								return
							}
							vs.Note("ret", "op", "ok", fmt.Sprint(len(rsps)))
							for i, r := range rsps {
								if e := r.Error(); e != nil {
									vs.Note("member", fmt.Sprint(i), r.ID(), "err", fmt.Sprint(int(e.Code)))
								} else {
									vs.Note("member", fmt.Sprint(i), r.ID(), "ok", r.ResultString())
								}
							}
						})
					case "r0", "r1":
						m := "m" + it[1:]
						j.Go(it, func() {
							vs.Await(func() bool { return h.idOf(m) != "" || h.peerDone }, "await request")
							if id := h.idOf(m); id != "" {
								h.send(replyFor(m, id))
							}
						})
					case "cancel":
						j.Go("cancel", func() { vs.Event("env", "cancel"); cancel() })
					}
				}
				vs.AwaitQuiescence()
				if j.n > 0 {
					vs.Event("call", "Close")
					c.Close()
				}
				j.Wait()
				c.Close()
				vs.AwaitQuiescence()
				n, ok := privLen(c, "pending")
				vs.Note("snapshot", fmt.Sprintf("pending=%d/%v", n, ok))
			}
			check := func(x *vs.Exec) []Viol {
				v := genericRules(x, nil)
				if x.Outcome != "ok" {
					return v
				}
				Hit("C05.R1")
				ri := findEv(x, 0, "ret", "op")
				if ri < 0 {
					return append(v, Viol{"C05.R1", "Batch did not return"})
				}
				cancelled := findEv(x, 0, "env", "cancel") >= 0 && findEv(x, 0, "env", "cancel") < ri
				closedEarly := findEv(x, 0, "call", "Close") >= 0 && findEv(x, 0, "call", "Close") < ri
				Hit("C05.R2")
				if x.Log[ri].Arg(1) != "ok" {
					if !cancelled && !closedEarly {
						v = append(v, Viol{"C05.R2", "Batch failed with " + x.Log[ri].Arg(2) + " although nothing had happened to its context or the client"})
					}
					return v
				}
				if x.Log[ri].Arg(2) != "2" {
					return append(v, Viol{"C05.R2", "Batch returned " + x.Log[ri].Arg(2) + " responses for two calls"})
				}
				Hit("C05.R4")
				for _, e := range x.Log {
					if e.K != "member" {
						continue
					}
					id, m := e.Arg(1), "m"+e.Arg(0)
					hooks := 0
					for _, f := range x.Log {
						if f.K == "hook" && f.Arg(0) == "OnCancel" && f.Arg(1) == id {
							hooks++
						}
					}
					if e.Arg(2) == "ok" {
						if want := fmt.Sprintf("%q", "R:"+m+":"+id); e.Arg(3) != want {
							v = append(v, Viol{"C05.R2", fmt.Sprintf("member %s returned %s, the peer sent %s", m, e.Arg(3), want)})
						}
						if hooks != 0 {
							v = append(v, Viol{"C05.R4", fmt.Sprintf("OnCancel ran %d times for the answered member %s", hooks, m)})
						}
						continue
					}
					if !cancelled && !closedEarly {
						v = append(v, Viol{"C05.R2", fmt.Sprintf("member %s (id %s) ended with error code %s although its context never ended, the client was not closed and the channel did not fail", m, id, e.Arg(3))})
					}
					if hooks > 1 {
						v = append(v, Viol{"C05.R4", fmt.Sprintf("OnCancel ran %d times for member %s", hooks, m)})
					}
				}
				if s := findEv(x, 0, "snapshot"); s >= 0 {
					Hit("C05.R7")
					if a := x.Log[s].Arg(0); strings.HasSuffix(a, "/true") && a != "pending=0/true" {
						v = append(v, Viol{"C05.R7", "requests still pending after Close: " + a})
					}
				}
				return v
			}
			return &Instance{Body: body, Check: check}
		},
	}
}

// c05BatchNoteCall: Batch [notification, call m0] issued concurrently with Call m1; the peer answers
// both. Each returns exactly once with its own reply, nothing stays pending.
func c05BatchNoteCall(items []string, b Bounds) *Scenario {
	return &Scenario{
		Name:   "batch[note,call] || call, order=" + strings.Join(items, ">"),
		Params: map[string]any{"start_order": items},
		Bounds: b,
		New: func() *Instance {
			h := &cliHarness{}
			body := func() {
				lib, peer, pipe := NewPipe(PipeOpts{Name: "cli", CloseUnblocksRecv: true})
				h.pipe, h.peer = pipe, peer
				c := jrpc2.NewClient(lib, &jrpc2.ClientOptions{
					OnCancel: func(_ *jrpc2.Client, r *jrpc2.Response) { vs.Event("hook", "OnCancel", r.ID()) },
				})
				h.cli = c
				vs.GoNamed("peer", h.peerLoop)
				var j Join
				for _, it := range items {
					switch it {
					case "op":
						j.Go("op", func() {
							rsps, err := c.Batch(context.Background(), []jrpc2.Spec{{Method: "bn", Notify: true}, {Method: "m0"}})
							vs.Yield("ret")
							switch {
							case err != nil:
								vs.Note("ret", "m0", "err", err.Error())
							case len(rsps) != 1:
								vs.Note("ret", "m0", "err", fmt.Sprintf("%d responses", len(rsps)))
							case rsps[0].Error() != nil:
								vs.Note("ret", "m0", "err", rsps[0].Error().Error())
							default:
								vs.Note("ret", "m0", "ok", rsps[0].ResultString())
							}
						})
					case "op2":
						j.Go("op2", func() {
							rsp, err := c.Call(context.Background(), "m1", nil)
							vs.Yield("ret")
							if err != nil {
								vs.Note("ret", "m1", "err", err.Error())
							} else {
								vs.Note("ret", "m1", "ok", rsp.ResultString())
							}
						})
					case "r0", "r1":
						m := "m" + it[1:]
						j.Go(it, func() {
							vs.Await(func() bool { return h.idOf(m) != "" || h.peerDone }, "await request")
							if id := h.idOf(m); id != "" {
								h.send(fmt.Sprintf(`{"jsonrpc":"2.0","id":%s,"result":"R:%s"}`, id, m))
							}
						})
					}
				}
				vs.AwaitQuiescence()
				if j.n > 0 {
					vs.Event("call", "Close")
					c.Close()
				}
				j.Wait()
				c.Close()
				vs.AwaitQuiescence()
				n, ok := privLen(c, "pending")
				vs.Note("snapshot", fmt.Sprintf("pending=%d/%v", n, ok))
			}
			check := func(x *vs.Exec) []Viol {
				v := genericRules(x, nil)
				if x.Outcome != "ok" {
					return v
				}
				closed := findEv(x, 0, "call", "Close")
				for _, m := range []string{"m0", "m1"} {
					Hit("C05.R1")
					i := findEv(x, 0, "ret", m)
					if i < 0 {
						v = append(v, Viol{"C05.R1", "the operation for " + m + " did not return"})
						continue
					}
					e := x.Log[i]
					Hit("C05.R2")
					if e.Arg(1) != "ok" {
						if closed < 0 || closed > i {
							v = append(v, Viol{"C05.R2", fmt.Sprintf("%s failed with %q although the peer answered it and nothing happened to the client", m, e.Arg(2))})
						}
					} else if e.Arg(2) != fmt.Sprintf("%q", "R:"+m) {
						v = append(v, Viol{"C05.R2", fmt.Sprintf("%s returned %s, the peer sent %q for it", m, e.Arg(2), "R:"+m)})
					}
				}
				for _, e := range x.Log {
					if e.K == "hook" && e.Arg(0) == "OnCancel" && closed < 0 {
						v = append(v, Viol{"C05.R4", "OnCancel ran although every request was answered"})
					}
				}
				if s := findEv(x, 0, "snapshot"); s >= 0 {
					Hit("C05.R7")
					if a := x.Log[s].Arg(0); strings.HasSuffix(a, "/true") && a != "pending=0/true" {
						v = append(v, Viol{"C05.R7", "requests still pending after Close: " + a})
					}
				}
				return v
			}
			return &Instance{Body: body, Check: check}
		},
	}
}

// c05Relabel: two Calls in flight; the caller whose reply arrives first does what a proxy does with a
// finished response (Response.SetID, as jhttp.Bridge does) and gives it the id text of the request
// that is still outstanding. A finished response is the caller's own: relabelling it must not reach
// the client's bookkeeping, so the other Call still returns with the peer's reply, exactly once.
func c05Relabel(items []string, b Bounds) *Scenario {
	return &Scenario{
		Name:   "call || call, a finished response is relabelled (SetID) with the id of the outstanding one, order=" + strings.Join(items, ">"),
		Params: map[string]any{"start_order": items},
		Bounds: b,
		New: func() *Instance {
			h := &cliHarness{}
			body := func() {
				lib, peer, pipe := NewPipe(PipeOpts{Name: "cli", CloseUnblocksRecv: true})
				h.pipe, h.peer = pipe, peer
				c := jrpc2.NewClient(lib, &jrpc2.ClientOptions{
					OnCancel: func(_ *jrpc2.Client, r *jrpc2.Response) { vs.Event("hook", "OnCancel", r.ID()) },
				})
				h.cli = c
				vs.GoNamed("peer", h.peerLoop)
				var j Join
				caller := func(m, other string) func() {
					return func() {
						rsp, err := c.Call(context.Background(), m, nil)
						if err == nil {
							res := rsp.ResultString()
							if id := h.idOf(other); id != "" {
								rsp.SetID(id)
							} else {
								rsp.SetID("2")
							}
							vs.Yield("ret")
							vs.Note("ret", m, "ok", res)
							return
						}
						vs.Yield("ret")
						vs.Note("ret", m, "err", err.Error())
					}
				}
				for _, it := range items {
					switch it {
					case "op":
						j.Go("op", caller("m0", "m1"))
					case "op2":
						j.Go("op2", caller("m1", "m0"))
					case "r0", "r1":
						m := "m" + it[1:]
						j.Go(it, func() {
							vs.Await(func() bool { return h.idOf(m) != "" || h.peerDone }, "await request")
							if id := h.idOf(m); id != "" {
								h.send(fmt.Sprintf(`{"jsonrpc":"2.0","id":%s,"result":"R:%s"}`, id, m))
							}
						})
					}
				}
				vs.AwaitQuiescence()
				if j.n > 0 {
					vs.Event("call", "Close")
					c.Close()
				}
				j.Wait()
				c.Close()
				vs.AwaitQuiescence()
				n, ok := privLen(c, "pending")
				vs.Note("snapshot", fmt.Sprintf("pending=%d/%v", n, ok))
			}
			check := func(x *vs.Exec) []Viol {
				v := genericRules(x, nil)
				if x.Outcome != "ok" {
					return v
				}
				closed := findEv(x, 0, "call", "Close")
				for _, m := range []string{"m0", "m1"} {
					Hit("C05.R1")
					i := findEv(x, 0, "ret", m)
					if i < 0 {
						v = append(v, Viol{"C05.R1", "the operation for " + m + " did not return"})
						continue
					}
					e := x.Log[i]
					Hit("C05.R2")
					if e.Arg(1) != "ok" {
						if closed < 0 || closed > i {
							v = append(v, Viol{"C05.R2", fmt.Sprintf("%s failed with %q although the peer answered it and nothing happened to the client", m, e.Arg(2))})
						}
					} else if e.Arg(2) != fmt.Sprintf("%q", "R:"+m) {
						v = append(v, Viol{"C05.R2", fmt.Sprintf("%s returned %s, the peer sent %q for it", m, e.Arg(2), "R:"+m)})
					}
				}
				for _, e := range x.Log {
					if e.K == "hook" && e.Arg(0) == "OnCancel" && closed < 0 {
						v = append(v, Viol{"C05.R4", "OnCancel ran although every request was answered"})
					}
				}
				if s := findEv(x, 0, "snapshot"); s >= 0 {
					Hit("C05.R7")
					if a := x.Log[s].Arg(0); strings.HasSuffix(a, "/true") && a != "pending=0/true" {
						v = append(v, Viol{"C05.R7", "requests still pending after Close: " + a})
					}
				}
				return v
			}
			return &Instance{Body: body, Check: check}
		},
	}
}

func c05Scenarios(tier string) []*Scenario {
	var out []*Scenario
	q := tier == "quick"
	add := func(op string, evs []string, unb bool, b Bounds) {
		for _, o := range orderings(append([]string{"op"}, evs...)) {
			out = append(out, c05Scenario(c05P{Op: op, Items: o, Unblock: unb}, b))
		}
	}
	ops := []string{"call", "batch", "callresult", "notify"}
	// with one environment deviation (e.g. a buffered reply handed straight to a parked waiter)
	out = append(out, c05Scenario(c05P{Op: "call", Items: []string{"op", "reply", "cancel"}, Unblock: true}, Bounds{1, 1, 1}),
		c05Scenario(c05P{Op: "batch", Items: []string{"op", "reply", "close"}, Unblock: true}, Bounds{1, 1, 1}))
	for _, op := range ops {
		for _, e := range c05Events {
			if e == "cancel" && false {
				continue
			}
			b := Bounds{2, 2, 0}
			if !q {
				b = Bounds{3, 3, 0}
			}
			add(op, []string{e}, true, b)
			if !q {
				add(op, []string{e}, false, b)
			}
		}
	}
	for _, op := range ops {
		for _, o := range [][]string{{"expired", "op"}, {"expired", "op", "reply"}} {
			out = append(out, c05Scenario(c05P{Op: op, Items: o, Unblock: true}, Bounds{1, 2, 0}))
		}
	}
	pairs := [][]string{{"ccallback", "close"}, {"ccallback", "eof"}, {"badreply", "close"}, {"badreply", "cancel"}, {"ucallback", "close"}, {"ucallback", "eof"}, {"gcallback", "eof"}, {"gcallback", "close"}, {"gcallback", "recverr"}, {"gcallback", "malformed"}, {"reply", "cancel"}, {"reply", "close"}, {"cancel", "close"}, {"reply", "eof"}, {"reply", "deadline"}, {"close", "eof"},
		{"reply", "recverr"}, {"cancel", "malformed"}, {"callback", "close"}, {"sendfault", "close"}, {"reply", "callback"}, {"deadline", "close"}}
	for _, pr := range pairs {
		if q {
			// quick: the operation starts first or last, events in both orders
			for _, o := range [][]string{{"op", pr[0], pr[1]}, {"op", pr[1], pr[0]}, {pr[0], pr[1], "op"}} {
				out = append(out, c05Scenario(c05P{Op: "call", Items: o, Unblock: true}, Bounds{1, 2, 0}))
			}
			out = append(out, c05Scenario(c05P{Op: "batch", Items: []string{"op", pr[0], pr[1]}, Unblock: true}, Bounds{1, 2, 0}))
		} else {
			add("call", pr, true, Bounds{2, 2, 0})
			add("batch", pr, true, Bounds{2, 2, 0})
			add("call", pr, false, Bounds{2, 2, 0})
		}
	}
	for _, o := range [][]string{{"op", "r0", "r1"}, {"op", "r1", "r0"}, {"op", "r0", "cancel", "r1"}, {"op", "cancel", "r1", "r0"}, {"op", "r0"}, {"op", "r1"}} {
		b := Bounds{1, 2, 0}
		if q && has(o, "cancel") {
			b = Bounds{1, 1, 0}
		} else if !q {
			b = Bounds{2, 2, 0}
		}
		out = append(out, c05Batch2(o, b))
	}
	for _, o := range [][]string{{"op", "op2", "r0", "r1"}, {"op2", "op", "r1", "r0"}, {"op", "op2", "r1", "r0"}} {
		b := Bounds{1, 1, 0}
		if !q {
			b = Bounds{2, 2, 0}
		}
		out = append(out, c05BatchNoteCall(o, b))
		out = append(out, c05Relabel(o, b))
	}
	if !q {
		for _, tr := range [][]string{{"reply", "cancel", "close"}, {"reply", "eof", "close"}, {"callback", "reply", "close"}, {"cancel", "recverr", "reply"}} {
			add("call", tr, true, Bounds{1, 2, 0})
		}
	}
	return out
}

// C10 client part: channel discipline on the client's channel.
func c10Client(callers int, callback, closeRace bool, b Bounds) *Scenario {
	return c10ClientX(callers, callback, closeRace, false, b)
}

// lateCaller: the last caller starts only once the peer has sent its callback request, so that
// its Send races with the client's reply to the callback.
func c10ClientX(callers int, callback, closeRace, lateCaller bool, b Bounds) *Scenario {
	name := fmt.Sprintf("client callers=%d", callers)
	if lateCaller {
		name += " (last caller starts after the callback request)"
	}
	if callback {
		name += " callback-reply"
	}
	if closeRace {
		name += " close"
	}
	return &Scenario{
		Name:   name,
		Params: map[string]any{"callers": callers, "callback": callback, "close": closeRace},
		Bounds: b,
		New: func() *Instance {
			h := &cliHarness{}
			body := func() {
				lib, peer, pipe := NewPipe(PipeOpts{Name: "cli", CloseUnblocksRecv: true, Monitor: true})
				h.pipe, h.peer = pipe, peer
				c := jrpc2.NewClient(lib, &jrpc2.ClientOptions{OnCallback: func(ctx context.Context, r *jrpc2.Request) (any, error) { return 1, nil }})
				var j Join
				sentCB, closeStarted := false, false
				for k := 0; k < callers; k++ {
					m := fmt.Sprintf("m%d\x01\a\x7f\U000e0001", k) // characters that JSON and Go quote differently
					last := k == callers-1
					j.Go(m, func() {
						if lateCaller && last {
							vs.Await(func() bool { return sentCB || closeStarted }, "await callback request")
						}
						c.Call(context.Background(), m, nil)
					})
				}
				vs.GoNamed("peer", func() {
					answered := 0
					for {
						rec, ok := peer.Recv()
						if !ok {
							break
						}
						ms, _, _ := parseRecord(rec)
						for _, m := range ms {
							if m.Has("method") && m.Has("id") {
								if callback && !sentCB {
									sentCB = true
									peer.Send([]byte(`{"jsonrpc":"2.0","id":"cb","method":"srvcall"}`))
								}
								peer.Send([]byte(fmt.Sprintf(`{"jsonrpc":"2.0","id":%s,"result":1}`, m.ID())))
								answered++
							}
						}
					}
					peer.Close()
				})
				if closeRace {
					j.Go("close", func() { closeStarted = true; c.Close() })
				}
				j.Wait()
				vs.AwaitQuiescence()
				c.Close()
			}
			check := func(x *vs.Exec) []Viol {
				v := genericRules(x, nil)
				return append(v, disciplineRules(x, "cli", 1)...)
			}
			return &Instance{Body: body, Check: check}
		},
	}
}

// c10ClientRawParams: parameters handed over as pre-encoded text (json.RawMessage) that is not valid
// JSON, in Call, Notify and Batch. Whatever the client makes of them, every record it hands to Send
// must still be one whole message.
func c10ClientRawParams() *Scenario {
	raws := []string{`[1, 2}`, `{"a":1`, `[1] [2]`, `{"a":tru}`, `[`, `{`, `[1,]`, `{"a":1}}`, "[\"\x01\"]", `[1]x`}
	return &Scenario{
		Name:   "client: pre-encoded parameters that are not valid JSON, in Call, Notify and Batch",
		Params: map[string]any{"raw_params": raws},
		Bounds: Bounds{0, 0, 0},
		New: func() *Instance {
			body := func() {
				lib, peer, _ := NewPipe(PipeOpts{Name: "cli", CloseUnblocksRecv: true, Monitor: true})
				c := jrpc2.NewClient(lib, nil)
				vs.GoNamed("peer", func() {
					for {
						rec, ok := peer.Recv()
						if !ok {
							break
						}
						ms, _, _ := parseRecord(rec)
						for _, m := range ms {
							if m.Has("method") && m.Has("id") {
								peer.Send([]byte(fmt.Sprintf(`{"jsonrpc":"2.0","id":%s,"result":1}`, m.ID())))
							}
						}
					}
					peer.Close()
				})
				// a call whose request cannot be read by the peer is never answered: bound each by a context the
				// harness ends once nothing moves
				for _, raw := range raws {
					ctx, cancel := cancelCauseCtx()
					vs.GoNamed("unstick", func() { vs.AwaitQuiescence(); cancel() })
					c.Call(ctx, "m", json.RawMessage(raw))
					c.Notify(ctx, "n", json.RawMessage(raw))
					c.Batch(ctx, []jrpc2.Spec{{Method: "a", Params: []int{1}}, {Method: "b", Params: json.RawMessage(raw)}})
					cancel()
					vs.AwaitQuiescence()
				}
				_, err := c.Call(context.Background(), "ok", json.RawMessage(`[1]`))
				vs.Note("last", errStr(err))
				c.Close()
			}
			check := func(x *vs.Exec) []Viol {
				v := genericRules(x, nil)
				v = append(v, disciplineRules(x, "cli", 1)...)
				if i := findEv(x, 0, "last"); x.Outcome == "ok" && (i < 0 || x.Log[i].Arg(0) != "<nil>") {
					v = append(v, Viol{"C10.R5", "after the calls with unusable parameters the client no longer works: a valid call failed"})
				}
				return v
			}
			return &Instance{Body: body, Check: check}
		},
	}
}

// c10ClientCancel: a Call whose context is cancelled at an arbitrary moment (in particular while its
// Send is in progress), with a second caller and/or Close competing for the channel.
func c10ClientCancel(second, closeRace bool, b Bounds) *Scenario {
	name := "client call+ctx-cancel"
	if second {
		name += " +second-caller"
	}
	if closeRace {
		name += " +close"
	}
	return &Scenario{
		Name:   name,
		Params: map[string]any{"second_caller": second, "close": closeRace},
		Bounds: b,
		New: func() *Instance {
			body := func() {
				lib, peer, _ := NewPipe(PipeOpts{Name: "cli", CloseUnblocksRecv: true, Monitor: true})
				c := jrpc2.NewClient(lib, nil)
				ctx, cancel := cancelCauseCtx()
				var j Join
				started := false
				j.Go("m0", func() { started = true; c.Call(ctx, "m0", nil) })
				j.Go("cancel", func() { vs.Await(func() bool { return started }, "await call"); cancel() })
				if second {
					j.Go("m1", func() {
						vs.Await(func() bool { return started }, "await call")
						c.Notify(context.Background(), "m1", nil)
					})
				}
				if closeRace {
					j.Go("close", func() { vs.Await(func() bool { return started }, "await call"); c.Close() })
				}
				vs.GoNamed("peer", func() {
					for {
						if _, ok := peer.Recv(); !ok {
							break
						}
					}
					peer.Close()
				})
				j.Wait()
				vs.AwaitQuiescence()
				c.Close()
			}
			check := func(x *vs.Exec) []Viol {
				v := genericRules(x, nil)
				return append(v, disciplineRules(x, "cli", 1)...)
			}
			return &Instance{Body: body, Check: check}
		},
	}
}

// c10ClientCallbacks: the peer has n callback requests in flight at once (optionally as one batch),
// so the client's replies to them compete with each other (and with a caller / Close) for the channel.
func c10ClientCallbacks(n int, batch, caller, closeRace bool, b Bounds) *Scenario {
	name := fmt.Sprintf("client %d callbacks in flight", n)
	if batch {
		name += " (one batch)"
	}
	if caller {
		name += " +caller"
	}
	if closeRace {
		name += " +close"
	}
	return &Scenario{
		Name:   name,
		Params: map[string]any{"callbacks": n, "batch": batch, "caller": caller, "close": closeRace},
		Bounds: b,
		New: func() *Instance {
			body := func() {
				lib, peer, _ := NewPipe(PipeOpts{Name: "cli", CloseUnblocksRecv: true, Monitor: true})
				c := jrpc2.NewClient(lib, &jrpc2.ClientOptions{OnCallback: func(ctx context.Context, r *jrpc2.Request) (any, error) {
					vs.Yield("callback handler " + r.Method())
					return r.Method(), nil
				}})
				var j Join
				vs.GoNamed("peer", func() {
					var reqs []string
					for k := 0; k < n; k++ {
						reqs = append(reqs, fmt.Sprintf(`{"jsonrpc":"2.0","id":"cb%d","method":"srvcall%d"}`, k, k))
					}
					if batch {
						peer.Send([]byte("[" + strings.Join(reqs, ",") + "]"))
					} else {
						for _, q := range reqs {
							peer.Send([]byte(q))
						}
					}
					for {
						rec, ok := peer.Recv()
						if !ok {
							break
						}
						ms, _, _ := parseRecord(rec)
						for _, m := range ms {
							if m.Has("method") && m.Has("id") {
								peer.Send([]byte(fmt.Sprintf(`{"jsonrpc":"2.0","id":%s,"result":1}`, m.ID())))
							}
						}
					}
					peer.Close()
				})
				if caller {
					j.Go("m0", func() { c.Call(context.Background(), "m0", nil) })
				}
				if closeRace {
					j.Go("close", func() { c.Close() })
				}
				j.Wait()
				vs.AwaitQuiescence()
				c.Close()
			}
			check := func(x *vs.Exec) []Viol {
				v := genericRules(x, nil)
				return append(v, disciplineRules(x, "cli", 1)...)
			}
			return &Instance{Body: body, Check: check}
		},
	}
}

// c10ClientRecvErr: the client's connection ends by a Recv error of the given kind while a call is
// pending; the application then closes the client. The channel must have been closed exactly once.
func c10ClientRecvErr(kind string, b Bounds) *Scenario {
	return &Scenario{
		Name:   "client recv-error=" + kind + " with a call pending, then Close",
		Params: map[string]any{"recv_error": kind},
		Bounds: b,
		New: func() *Instance {
			body := func() {
				lib, peer, pipe := NewPipe(PipeOpts{Name: "cli", CloseUnblocksRecv: true, Monitor: true})
				c := jrpc2.NewClient(lib, nil)
				var j Join
				j.Go("m0", func() { c.Call(context.Background(), "m0", nil) })
				vs.GoNamed("peer", func() {
					for {
						if _, ok := peer.Recv(); !ok {
							return
						}
					}
				})
				vs.AwaitQuiescence()
				pipe.FailRecv = recvErrOf(kind)
				j.Wait()
				vs.AwaitQuiescence()
				c.Close()
				peer.Close()
			}
			check := func(x *vs.Exec) []Viol {
				v := genericRules(x, nil)
				return append(v, disciplineRules(x, "cli", 1)...)
			}
			return &Instance{Body: body, Check: check}
		},
	}
}

func c10ClientScenarios(tier string) []*Scenario {
	b, bb := Bounds{2, 2, 0}, Bounds{1, 2, 0}
	if tier != "quick" {
		b, bb = Bounds{3, 2, 0}, Bounds{2, 2, 0}
	}
	return []*Scenario{
		c10ClientRawParams(),
		c10Client(1, false, false, b),
		c10Client(2, false, false, bb),
		c10Client(1, true, false, bb),
		c10Client(1, false, true, b),
		c10Client(2, true, true, Bounds{1, 1, 0}),
		c10ClientX(2, true, false, true, bb),
		c10ClientX(2, true, true, true, bb),
		c10ClientCancel(true, false, b),
		c10ClientCancel(false, true, b),
		c10ClientCallbacks(2, false, false, false, b),
		c10ClientCallbacks(2, true, false, false, bb),
		c10ClientCallbacks(2, false, true, false, bb),
		c10ClientCallbacks(2, false, false, true, bb),
	}
}
