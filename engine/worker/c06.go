package main

import (
	"context"
	"fmt"
	"github.com/creachadair/jrpc2/channel"
	"github.com/creachadair/jrpc2/jhttp"
	"github.com/creachadair/jrpc2/server"
	"net/http/httptest"
	"runtime"
	"strings"
	"time"

	"github.com/creachadair/jrpc2"
	"verif/vs"
)

// C06 — handler concurrency stays within the limit and is work-conserving;
// a call cancelled while waiting for a slot is answered without running.

func init() { register("C06", c06Scenarios) }

// c06Gated: N slots, M gated calls (one batch or M single messages, optionally an
// rpc.serverInfo call in between); a controller opens the gates one at a time in
// every order, observing the system at each quiescent point.
func c06Gated(n, m int, batch, info bool, optConc int, b Bounds) *Scenario {
	return c06GatedX(n, m, batch, info, optConc, false, b)
}

// restart: the server first serves another connection that is stopped while one call executes, further
// calls wait for a slot and a notification is queued; the judged traffic runs on the second connection.
func c06GatedX(n, m int, batch, info bool, optConc int, restart bool, b Bounds) *Scenario {
	return c06GatedY(n, m, batch, info, optConc, restart, false, b)
}

func c06GatedY(n, m int, batch, info bool, optConc int, restart, cancelRunning bool, b Bounds) *Scenario {
	var tokens []string
	if batch {
		tokens = []string{"[" + strings.Repeat("g", m) + "]"}
		if info {
			tokens = []string{"[" + strings.Repeat("g", m) + "i]"}
		}
	} else {
		for i := 0; i < m; i++ {
			tokens = append(tokens, "g")
			if info && i == 0 {
				tokens = append(tokens, "i")
			}
		}
	}
	name := fmt.Sprintf("gated N=%d {%s}", n, tokensName(tokens))
	if optConc != n {
		name = fmt.Sprintf("option Concurrency=%d (effective %d) {%s}", optConc, n, tokensName(tokens))
	}
	if restart {
		name += " after a restart (first connection stopped with calls executing and waiting)"
	}
	if cancelRunning {
		name += " with CancelRequest of an executing call that keeps executing"
	}
	return &Scenario{
		Name:   name,
		Params: map[string]any{"limit": n, "calls": m, "batch": batch, "serverInfo": info, "option": optConc, "restart": restart},
		Bounds: b,
		New: func() *Instance {
			h := &seqHarness{msgs: buildSeq(tokens), gates: NewGates()}
			var gated []string
			for _, ms := range h.msgs {
				for _, mem := range ms.Members {
					if mem.Kind == 'g' {
						gated = append(gated, mem.Method)
					}
				}
			}
			body := func() {
				srv := jrpc2.NewServer(namerAssigner{anyAssigner{h.handler()}}, &jrpc2.ServerOptions{Concurrency: optConc})
				if restart {
					lib0, peer0, _ := NewPipe(PipeOpts{Name: "srv0", CloseUnblocksRecv: true, Quiet: true})
					srv.Start(lib0)
					for k := 0; k <= n; k++ {
						peer0.Send([]byte(fmt.Sprintf(`{"jsonrpc":"2.0","id":"w%d","method":"gw%d"}`, k, k)))
					}
					peer0.Send([]byte(`{"jsonrpc":"2.0","method":"nw"}`))
					vs.AwaitQuiescence()
					vs.GoNamed("opener0", func() {
						vs.AwaitQuiescence()
						for k := 0; k <= n; k++ {
							h.gates.Open(fmt.Sprintf("gw%d", k))
						}
					})
					srv.Stop()
					srv.Wait()
					vs.Note("phase2")
				}
				lib, peer, _ := NewPipe(PipeOpts{Name: "srv", CloseUnblocksRecv: true})
				srv.Start(lib)
				vs.GoNamed("controller", func() {
					for _, ms := range h.msgs {
						peer.Send([]byte(ms.JSON))
					}
					if cancelRunning {
						// an executing handler is cancelled but keeps executing (it ignores its context until its gate
						// opens): it still occupies its slot
						vs.AwaitQuiescence()
					pick:
						for _, ms := range h.msgs {
							for _, mem := range ms.Members {
								if mem.Kind == 'g' && h.entered[mem.Method] {
									vs.Note("cancel-running", mem.ID)
									srv.CancelRequest(mem.ID)
									break pick
								}
							}
						}
					}
					opened := map[string]bool{}
					for {
						vs.AwaitQuiescence()
						vs.Note("quiet", fmt.Sprint(len(opened)))
						var cand []string
						for _, g := range gated {
							if !opened[g] && h.entered[g] {
								cand = append(cand, g)
							}
						}
						if len(cand) == 0 {
							break
						}
						k := 0
						if optConc == n { // the option-mapping scenarios (many gates) open in one fixed order
							k = vs.ChooseFree(len(cand), "open-order")
						}
						g := cand[k]
						opened[g] = true
						vs.Note("open", g)
						h.gates.Open(g)
					}
					peer.Close()
				})
				srv.WaitStatus()
			}
			check := func(x *vs.Exec) []Viol {
				v := genericRules(x, nil)
				running, finished := 0, 0
				log := x.Log
				if i := findEv(x, 0, "phase2"); i >= 0 {
					log = x.Log[i:] // the first connection is history, not judged traffic
				}
				for _, e := range log {
					switch e.K {
					case "h_enter":
						running++
						Hit("C06.R1")
						if running > n {
							v = append(v, Viol{"C06.R1", fmt.Sprintf("%d handlers executing with Concurrency %d", running, n)})
						}
					case "h_exit":
						running--
						finished++
					case "names":
						// the assigner's method list is read only by the built-in rpc.serverInfo, i.e. this is a
						// built-in handler invocation at work: it needs a slot like any other
						Hit("C06.R1")
						if running+1 > n {
							v = append(v, Viol{"C06.R1", fmt.Sprintf("the built-in rpc.serverInfo is executing while %d handlers are, Concurrency %d", running, n)})
						}
					case "quiet":
						Hit("C06.R2")
						want := m - finished
						if want > n {
							want = n
						}
						if running != want {
							v = append(v, Viol{"C06.R2", fmt.Sprintf("at a quiescent point %d handlers are executing, %d calls are unfinished, limit %d: not work-conserving", running, m-finished, n)})
						}
					}
				}
				if x.Outcome == "ok" && finished != m {
					v = append(v, Viol{"C06.R2", fmt.Sprintf("only %d of %d calls finished", finished, m)})
				}
				return v
			}
			return &Instance{Body: body, Check: check}
		},
	}
}

// c06Cancel: N=1, A running (gated), B waiting for the slot (confirmed by quiescence),
// CancelRequest(B), quiescence, release A.
func c06Cancel(stepped bool, b Bounds) *Scenario {
	tokens := []string{"g", "c"}
	name := "cancel-while-waiting stepped"
	if !stepped {
		name = "cancel-while-waiting free"
	}
	return &Scenario{
		Name:   name,
		Params: map[string]any{"limit": 1, "stepped": stepped},
		Bounds: b,
		New: func() *Instance {
			h := &seqHarness{msgs: buildSeq(tokens), gates: NewGates()}
			a, bb := h.msgs[0].Members[0], h.msgs[1].Members[0]
			body := func() {
				lib, peer, _ := NewPipe(PipeOpts{Name: "srv", CloseUnblocksRecv: true})
				srv := jrpc2.NewServer(anyAssigner{h.handler()}, &jrpc2.ServerOptions{Concurrency: 1})
				srv.Start(lib)
				vs.GoNamed("controller", func() {
					peer.Send([]byte(h.msgs[0].JSON))
					if stepped {
						vs.AwaitQuiescence()
					}
					peer.Send([]byte(h.msgs[1].JSON))
					vs.AwaitQuiescence()
					vs.Note("quiet", "B-waiting")
					vs.Event("call", "CancelRequest", bb.ID)
					srv.CancelRequest(bb.ID)
					vs.AwaitQuiescence()
					vs.Note("quiet", "after-cancel")
					h.gates.Open(a.Method)
					vs.AwaitQuiescence()
					peer.Close()
				})
				srv.WaitStatus()
			}
			check := func(x *vs.Exec) []Viol {
				v := genericRules(x, nil)
				if x.Outcome != "ok" {
					return v
				}
				q := findEv(x, 0, "quiet", "B-waiting")
				enA, enB := findEv(x, 0, "h_enter", a.Method), findEv(x, 0, "h_enter", bb.Method)
				if enA >= 0 && enA < q && (enB < 0 || enB > q) {
					// B was waiting for the slot when it was cancelled
					Hit("C06.R3")
					if enB >= 0 {
						v = append(v, Viol{"C06.R3", "handler of a call cancelled while waiting for a slot was run"})
					}
					found := false
					for _, o := range outEvents(x, "srv") {
						ms, _, _ := parseRecord([]byte(o.Raw))
						for _, mm := range ms {
							if mm.ID() == bb.ID {
								found = true
								if c, ok := mm.ErrCode(); !ok || c != -32097 {
									v = append(v, Viol{"C06.R3", "call cancelled while waiting was not answered with the cancellation error: " + string(mm.Raw)})
								}
								if o.At > findEv(x, 0, "quiet", "after-cancel") {
									v = append(v, Viol{"C06.R3", "cancelled waiting call was answered only after the running call finished"})
								}
							}
						}
					}
					if !found {
						v = append(v, Viol{"C06.R3", "call cancelled while waiting was never answered"})
					}
				}
				return v
			}
			return &Instance{Body: body, Check: check}
		},
	}
}

// c06CancelRace: N slots all busy with gated calls, one more call W waiting for a slot; then the
// release of a running call races with CancelRequest(W); afterwards a fresh call must still be
// served (a slot lost in the race would leave it waiting for ever).
func c06CancelRace(n int, b Bounds) *Scenario {
	var tokens []string
	for i := 0; i < n; i++ {
		tokens = append(tokens, "g")
	}
	tokens = append(tokens, "c", "c") // W, then the probe P
	return &Scenario{
		Name:   fmt.Sprintf("cancel-racing-release N=%d", n),
		Params: map[string]any{"limit": n},
		Bounds: b,
		New: func() *Instance {
			h := &seqHarness{msgs: buildSeq(tokens), gates: NewGates()}
			w, pr := h.msgs[n].Members[0], h.msgs[n+1].Members[0]
			body := func() {
				lib, peer, _ := NewPipe(PipeOpts{Name: "srv", CloseUnblocksRecv: true})
				srv := jrpc2.NewServer(anyAssigner{h.handler()}, &jrpc2.ServerOptions{Concurrency: n})
				srv.Start(lib)
				vs.GoNamed("controller", func() {
					for i := 0; i <= n; i++ {
						peer.Send([]byte(h.msgs[i].JSON))
					}
					vs.AwaitQuiescence()
					vs.Note("quiet", "W-waiting")
					var j Join
					j.Go("release", func() { h.gates.Open(h.msgs[0].Members[0].Method) })
					j.Go("cancel", func() { srv.CancelRequest(w.ID) })
					j.Wait()
					vs.AwaitQuiescence()
					vs.Note("quiet", "after-race")
					for i := 1; i < n; i++ {
						h.gates.Open(h.msgs[i].Members[0].Method)
					}
					peer.Send([]byte(h.msgs[n+1].JSON))
					vs.AwaitQuiescence()
					vs.Note("quiet", "probe")
					peer.Close()
				})
				srv.WaitStatus()
			}
			check := func(x *vs.Exec) []Viol {
				v := genericRules(x, nil)
				if x.Outcome != "ok" {
					return v
				}
				Hit("C06.R2")
				if findEv(x, 0, "h_exit", pr.Method) < 0 {
					v = append(v, Viol{"C06.R2", "after a cancellation raced with a release, a later call was never started although no handler is executing: an execution slot was lost"})
				}
				answered := false
				for _, o := range outEvents(x, "srv") {
					ms, _, _ := parseRecord([]byte(o.Raw))
					for _, m := range ms {
						if m.ID() == w.ID {
							answered = true
						}
					}
				}
				Hit("C06.R3")
				if !answered {
					v = append(v, Viol{"C06.R3", "the cancelled waiting call was never answered"})
				}
				return v
			}
			return &Instance{Body: body, Check: check}
		},
	}
}

// c06BackPressure: N gated calls occupy the slots and m plain calls are dispatched and waiting for a
// slot (confirmed by quiescence). Then the client stops reading (a reply's Send blocks) and the gated
// calls are released. Handlers do not need the channel: every dispatched call must still get its turn
// while the reply is stuck in Send.
func c06BackPressure(n, m int, b Bounds) *Scenario {
	var tokens []string
	for i := 0; i < n; i++ {
		tokens = append(tokens, "g")
	}
	for i := 0; i < m; i++ {
		tokens = append(tokens, "c")
	}
	return &Scenario{
		Name:   fmt.Sprintf("back-pressure N=%d {%s}: replies blocked in Send while dispatched calls wait", n, tokensName(tokens)),
		Params: map[string]any{"limit": n, "waiting_calls": m},
		Bounds: b,
		New: func() *Instance {
			h := &seqHarness{msgs: buildSeq(tokens), gates: NewGates()}
			body := func() {
				lib, peer, pipe := NewPipe(PipeOpts{Name: "srv", CloseUnblocksRecv: true})
				srv := jrpc2.NewServer(anyAssigner{h.handler()}, &jrpc2.ServerOptions{Concurrency: n})
				srv.Start(lib)
				vs.GoNamed("controller", func() {
					for _, ms := range h.msgs {
						peer.Send([]byte(ms.JSON))
					}
					vs.AwaitQuiescence()
					vs.Note("quiet", "all-dispatched")
					pipe.BlockSend = true
					for i := 0; i < n; i++ {
						h.gates.Open(h.msgs[i].Members[0].Method)
					}
					vs.AwaitQuiescence()
					vs.Note("quiet", "sends-blocked")
					pipe.BlockSend = false
					vs.AwaitQuiescence()
					vs.Note("quiet", "drained")
					peer.Close()
				})
				srv.WaitStatus()
			}
			check := func(x *vs.Exec) []Viol {
				v := genericRules(x, nil)
				if x.Outcome != "ok" {
					return v
				}
				entered, exited := 0, 0
				for _, e := range x.Log {
					switch e.K {
					case "h_enter":
						entered++
						if entered-exited > n {
							v = append(v, Viol{"C06.R1", fmt.Sprintf("%d handlers executing with Concurrency %d", entered-exited, n)})
						}
					case "h_exit":
						exited++
					case "quiet":
						if e.Arg(0) == "sends-blocked" {
							Hit("C06.R2")
							running, waiting := entered-exited, n+m-entered
							if waiting > 0 && running < n {
								v = append(v, Viol{"C06.R2", fmt.Sprintf("while a reply is blocked in Send, %d handlers are executing (limit %d) and %d dispatched calls have not started: not work-conserving", running, n, waiting)})
							}
						}
					}
				}
				if exited != n+m {
					v = append(v, Viol{"C06.R2", fmt.Sprintf("only %d of %d calls ran", exited, n+m)})
				}
				return v
			}
			return &Instance{Body: body, Check: check}
		},
	}
}

// c06ReleaseRace: N gated calls occupy every slot; then N more calls arrive WHILE the running ones are
// released (no quiescent point in between), so releases can land in the window in which a newcomer has
// seen "no slot" but is not parked yet. Afterwards every call must have run.
func c06ReleaseRace(n int, b Bounds) *Scenario {
	var tokens []string
	for i := 0; i < 2*n; i++ {
		tokens = append(tokens, "g") // the newcomers are gated too: they must all be RUNNING at the next quiescent point
	}
	return &Scenario{
		Name:   fmt.Sprintf("release-racing-arrival N=%d {%s}", n, tokensName(tokens)),
		Params: map[string]any{"limit": n},
		Bounds: b,
		New: func() *Instance {
			h := &seqHarness{msgs: buildSeq(tokens), gates: NewGates()}
			body := func() {
				lib, peer, _ := NewPipe(PipeOpts{Name: "srv", CloseUnblocksRecv: true})
				srv := jrpc2.NewServer(anyAssigner{h.handler()}, &jrpc2.ServerOptions{Concurrency: n})
				srv.Start(lib)
				vs.GoNamed("controller", func() {
					for i := 0; i < n; i++ {
						peer.Send([]byte(h.msgs[i].JSON))
					}
					vs.AwaitQuiescence()
					vs.Note("quiet", "slots-full")
					var j Join
					j.Go("arrivals", func() {
						for i := n; i < 2*n; i++ {
							peer.Send([]byte(h.msgs[i].JSON))
						}
					})
					j.Go("releases", func() {
						for i := 0; i < n; i++ {
							h.gates.Open(h.msgs[i].Members[0].Method)
						}
					})
					j.Wait()
					vs.AwaitQuiescence()
					vs.Note("quiet", "after-race")
					for i := n; i < 2*n; i++ {
						h.gates.Open(h.msgs[i].Members[0].Method)
					}
					vs.AwaitQuiescence()
					vs.Note("quiet", "final")
					peer.Close()
				})
				srv.WaitStatus()
			}
			check := func(x *vs.Exec) []Viol {
				v := genericRules(x, nil)
				if x.Outcome != "ok" {
					return v
				}
				entered, exited := 0, 0
				for _, e := range x.Log {
					switch e.K {
					case "h_enter":
						entered++
						if entered-exited > n {
							v = append(v, Viol{"C06.R1", fmt.Sprintf("%d handlers executing with Concurrency %d", entered-exited, n)})
						}
					case "h_exit":
						exited++
					case "quiet":
						if e.Arg(0) == "after-race" {
							Hit("C06.R2")
							if running := entered - exited; running != n {
								v = append(v, Viol{"C06.R2", fmt.Sprintf("after %d releases raced with %d arrivals, %d handlers are executing although %d calls are dispatched and unfinished (limit %d): a waiting request was not woken", n, n, running, 2*n-exited, n)})
							}
						}
						if e.Arg(0) == "final" {
							Hit("C06.R2")
							if entered != 2*n {
								v = append(v, Viol{"C06.R2", fmt.Sprintf("at the final quiescent point no handler is executing, yet %d dispatched call(s) never started (limit %d): a waiting request was not woken", 2*n-entered, n)})
							}
						}
					}
				}
				return v
			}
			return &Instance{Body: body, Check: check}
		},
	}
}

// c06Deadline: the request contexts come from ServerOptions.NewContext and end by DEADLINE (not by
// cancellation) while a call waits for the only slot: the waiter is answered with an error, its
// handler never runs, and the limit holds throughout.
func c06Deadline(n int, b Bounds) *Scenario {
	return &Scenario{
		Name:   fmt.Sprintf("N=%d: a call whose context has already passed its deadline arrives while every slot is busy", n),
		Params: map[string]any{"limit": n, "context_ends_by": "deadline (context.DeadlineExceeded)"},
		Bounds: b,
		New: func() *Instance {
			var tokens []string
			for i := 0; i < n; i++ {
				tokens = append(tokens, "g")
			}
			tokens = append(tokens, "c")
			h := &seqHarness{msgs: buildSeq(tokens), gates: NewGates()}
			waiter := h.msgs[n].Members[0]
			body := func() {
				lib, peer, _ := NewPipe(PipeOpts{Name: "srv", CloseUnblocksRecv: true})
				// the first n requests get a context that never ends, the next one a context whose deadline has
				// passed already (a standard library context: no timer is involved once the deadline is in the past)
				expired, cancelExpired := context.WithDeadlineCause(context.Background(), time.Unix(1, 0), errCause)
				defer cancelExpired()
				nctx := 0
				srv := jrpc2.NewServer(anyAssigner{h.handler()}, &jrpc2.ServerOptions{Concurrency: n, NewContext: func() context.Context {
					nctx++
					if nctx > n {
						return expired
					}
					return context.Background()
				}})
				srv.Start(lib)
				for _, ms := range h.msgs[:n] {
					peer.Send([]byte(ms.JSON))
				}
				vs.AwaitQuiescence() // the gated calls hold every slot
				peer.Send([]byte(h.msgs[n].JSON))
				vs.AwaitQuiescence()
				vs.Note("quiet", "after-deadline")
				for _, ms := range h.msgs[:n] {
					h.gates.Open(ms.Members[0].Method)
				}
				vs.AwaitQuiescence()
				peer.Close()
				srv.WaitStatus()
			}
			check := func(x *vs.Exec) []Viol {
				v := genericRules(x, nil)
				running := 0
				for _, e := range x.Log {
					switch e.K {
					case "h_enter":
						running++
						Hit("C06.R1")
						if running > n {
							v = append(v, Viol{"C06.R1", fmt.Sprintf("%d handlers executing with Concurrency %d", running, n)})
						}
						if e.Arg(0) == waiter.Method {
							Hit("C06.R3")
							v = append(v, Viol{"C06.R3", "the handler of the call whose context ended while it waited for a slot was run"})
						}
					case "h_exit":
						running--
					}
				}
				if x.Outcome != "ok" {
					return v
				}
				Hit("C06.R3")
				q := findEv(x, 0, "quiet", "after-deadline")
				answered := false
				for _, o := range outEvents(x, "srv") {
					ms, _, _ := parseRecord([]byte(o.Raw))
					for _, m := range ms {
						if m.ID() == waiter.ID {
							answered = true
							if !m.Has("error") {
								v = append(v, Viol{"C06.R3", "the call whose context ended while waiting was answered with a result: " + string(m.Raw)})
							}
							if o.At > q {
								v = append(v, Viol{"C06.R3", "the waiting call was answered only after a slot became free, not when its context ended"})
							}
						}
					}
				}
				if !answered {
					v = append(v, Viol{"C06.R3", "the call whose context ended while waiting was never answered"})
				}
				return v
			}
			return &Instance{Body: body, Check: check}
		},
	}
}

// c06CancelBehindNote: a call is dispatched while an earlier notification is still running (it waits at
// the notification barrier and, with N=1, for the slot as well), is cancelled there, and the
// notification then returns: the call is answered with a cancellation error, its handler never runs.
func c06CancelBehindNote(n int, b Bounds) *Scenario {
	return &Scenario{
		Name:   fmt.Sprintf("N=%d: CancelRequest of a call held up behind a running notification", n),
		Params: map[string]any{"limit": n},
		Bounds: b,
		New: func() *Instance {
			h := &seqHarness{msgs: buildSeq([]string{"h", "c"}), gates: NewGates()}
			note, call := h.msgs[0].Members[0], h.msgs[1].Members[0]
			body := func() {
				lib, peer, _ := NewPipe(PipeOpts{Name: "srv", CloseUnblocksRecv: true})
				srv := jrpc2.NewServer(anyAssigner{h.handler()}, &jrpc2.ServerOptions{Concurrency: n})
				srv.Start(lib)
				peer.Send([]byte(h.msgs[0].JSON))
				vs.AwaitQuiescence()
				peer.Send([]byte(h.msgs[1].JSON))
				vs.AwaitQuiescence()
				vs.Note("cancel", call.ID)
				srv.CancelRequest(call.ID)
				vs.AwaitQuiescence()
				h.gates.Open(note.Method)
				vs.AwaitQuiescence()
				peer.Close()
				srv.WaitStatus()
			}
			check := func(x *vs.Exec) []Viol {
				v := genericRules(x, nil)
				if x.Outcome != "ok" {
					return v
				}
				Hit("C06.R3")
				if findEv(x, 0, "h_enter", call.Method) >= 0 {
					v = append(v, Viol{"C06.R3", "the handler of a call cancelled before it could start was run"})
				}
				answered := false
				for _, o := range outEvents(x, "srv") {
					ms, _, _ := parseRecord([]byte(o.Raw))
					for _, m := range ms {
						if m.ID() == call.ID {
							answered = true
							if c, isE := m.ErrCode(); !isE || c != -32097 {
								v = append(v, Viol{"C06.R3", "the cancelled call was not answered with the cancellation error: " + string(m.Raw)})
							}
						}
					}
				}
				if !answered {
					v = append(v, Viol{"C06.R3", "the cancelled call was never answered"})
				}
				return v
			}
			return &Instance{Body: body, Check: check}
		},
	}
}

// c06Wrappers: the Concurrency limit given in the server options holds for the servers that server.Loop
// and jhttp.Bridge build from their options too: a batch of three calls with Concurrency 1 never has two
// handlers executing.
func c06Wrappers(kind string) *Scenario {
	return &Scenario{
		Name:   "Concurrency 1 given through " + kind + ": three calls at once (one batch; three GET requests)",
		Params: map[string]any{"wrapper": kind},
		Bounds: Bounds{1, 1, 0},
		New: func() *Instance {
			gates := NewGates()
			body := func() {
				inflight, peak := 0, 0
				hd := func(ctx context.Context, req *jrpc2.Request) (any, error) {
					inflight++
					if inflight > peak {
						peak = inflight
					}
					gates.Wait("g")
					inflight--
					return 1, nil
				}
				so := &jrpc2.ServerOptions{Concurrency: 1}
				batch := `[{"jsonrpc":"2.0","id":1,"method":"a"},{"jsonrpc":"2.0","id":2,"method":"b"},{"jsonrpc":"2.0","id":3,"method":"c"}]`
				vs.GoNamed("opener", func() {
					vs.AwaitQuiescence()
					vs.Note("peak", fmt.Sprint(peak))
					gates.Open("g")
				})
				switch kind {
				case "jhttp.Getter":
					g := jhttp.NewGetter(anyAssigner{hd}, &jhttp.GetterOptions{Server: so})
					var j Join
					for _, m := range []string{"a", "b", "c"} {
						m := m
						j.Go("get-"+m, func() { g.ServeHTTP(httptest.NewRecorder(), httptest.NewRequest("GET", "/"+m, nil)) })
					}
					j.Wait()
					g.Close()
				case "jhttp.Bridge":
					b := jhttp.NewBridge(anyAssigner{hd}, &jhttp.BridgeOptions{Server: so})
					doHTTP(b, "POST", "application/json", batch)
					b.Close()
				default:
					lib, peer, _ := NewPipe(PipeOpts{Name: "loopconn", CloseUnblocksRecv: true, Quiet: true})
					acc := &memAccepter{queue: []channel.Channel{lib}}
					lctx, lcancel := cancelCauseCtx()
					vs.GoNamed("loop-client", func() {
						peer.Send([]byte(batch))
						peer.Recv()
						peer.Close()
						vs.AwaitQuiescence()
						lcancel()
					})
					server.Loop(lctx, acc, server.Static(anyAssigner{hd}), &server.LoopOptions{ServerOptions: so})
					lcancel()
				}
			}
			check := func(x *vs.Exec) []Viol {
				v := genericRules(x, nil)
				Hit("C06.R1")
				if i := findEv(x, 0, "peak"); i >= 0 && x.Log[i].Arg(0) != "1" {
					v = append(v, Viol{"C06.R1", x.Log[i].Arg(0) + " handlers executing with Concurrency 1 given through " + kind})
				}
				return v
			}
			return &Instance{Body: body, Check: check}
		},
	}
}

// c06Outcomes: every way a handler invocation can end (result, error, failing notification, notification,
// unknown method, a batch of failing notifications) happens first; each of them must hand its slot back, so
// that afterwards N gated calls all run at once. A slot lost on one exit path shows as a call that never starts.
func c06Outcomes(n int, prelude []string, b Bounds) *Scenario {
	tokens := append([]string{}, prelude...)
	for i := 0; i < n; i++ {
		tokens = append(tokens, "g")
	}
	return &Scenario{
		Name:   fmt.Sprintf("N=%d: after {%s} have finished, %d gated calls must all be executing", n, tokensName(prelude), n),
		Params: map[string]any{"limit": n, "prelude": prelude},
		Bounds: b,
		New: func() *Instance {
			h := &seqHarness{msgs: buildSeq(tokens), gates: NewGates()}
			body := func() {
				lib, peer, _ := NewPipe(PipeOpts{Name: "srv", CloseUnblocksRecv: true})
				srv := jrpc2.NewServer(anyAssigner{h.handler()}, &jrpc2.ServerOptions{Concurrency: n})
				srv.Start(lib)
				vs.GoNamed("controller", func() {
					for i := range prelude {
						peer.Send([]byte(h.msgs[i].JSON))
					}
					vs.AwaitQuiescence()
					vs.Note("quiet", "prelude-done")
					for i := len(prelude); i < len(tokens); i++ {
						peer.Send([]byte(h.msgs[i].JSON))
					}
					vs.AwaitQuiescence()
					vs.Note("quiet", "calls-sent")
					for i := len(prelude); i < len(tokens); i++ {
						h.gates.Open(h.msgs[i].Members[0].Method)
					}
					vs.AwaitQuiescence()
					peer.Close()
				})
				srv.WaitStatus()
			}
			check := func(x *vs.Exec) []Viol {
				v := genericRules(x, nil)
				if x.Outcome != "ok" {
					return v
				}
				entered, exited, gated := 0, 0, 0
				for _, e := range x.Log {
					switch e.K {
					case "h_enter":
						entered++
						if strings.HasPrefix(e.Arg(0), "g") {
							gated++
						}
						if entered-exited > n {
							v = append(v, Viol{"C06.R1", fmt.Sprintf("%d handlers executing with Concurrency %d", entered-exited, n)})
						}
					case "h_exit":
						exited++
					case "quiet":
						if e.Arg(0) == "calls-sent" {
							Hit("C06.R2")
							if gated != n {
								v = append(v, Viol{"C06.R2", fmt.Sprintf("every earlier request has finished and %d calls are dispatched, but only %d of them are executing (limit %d): an execution slot was not handed back by an earlier request", n, gated, n)})
							}
						}
					}
				}
				return v
			}
			return &Instance{Body: body, Check: check}
		},
	}
}

func c06Scenarios(tier string) []*Scenario {
	var out []*Scenario
	out = append(out, c06Wrappers("jhttp.Bridge"), c06Wrappers("server.Loop"), c06Wrappers("jhttp.Getter"))
	out = append(out, batchGates("C06.R2", tier)...)
	if tier == "quick" {
		out = append(out, c06Gated(1, 2, false, false, 1, Bounds{1, -1, 1})) // with one environment deviation
	}
	maxN, b := 2, Bounds{2, -1, 0}
	if tier != "quick" {
		maxN, b = 3, Bounds{3, -1, 1}
	}
	for n := 1; n <= maxN; n++ {
		for m := 1; m <= n+2; m++ {
			bb := b
			if m >= 3 {
				bb.P--
			}
			if m >= 4 {
				bb.P = 1
				bb.D = 0
			}
			out = append(out, c06Gated(n, m, true, false, n, bb))
			if m <= 3 {
				out = append(out, c06Gated(n, m, false, false, n, bb))
			}
		}
		out = append(out, c06Gated(n, 2, true, true, n, Bounds{b.P - 1, -1, 0}))
		out = append(out, c06Gated(n, 2, false, true, n, Bounds{b.P - 1, -1, 0}))
	}
	out = append(out, c06Cancel(true, b), c06Cancel(false, b))
	out = append(out, c06Deadline(1, Bounds{1, -1, 0}), c06Deadline(2, Bounds{1, -1, 0}))
	out = append(out, c06CancelBehindNote(1, Bounds{1, -1, 0}), c06CancelBehindNote(2, Bounds{1, -1, 0}))
	out = append(out, c06GatedY(1, 2, false, false, 1, false, true, Bounds{1, -1, 0}), c06GatedY(2, 3, true, false, 2, false, true, Bounds{1, -1, 0}))
	if tier == "quick" {
		out = append(out, c06GatedX(1, 2, false, false, 1, true, Bounds{1, 1, 0}), c06GatedX(2, 3, true, false, 2, true, Bounds{1, 1, 0}))
	} else {
		out = append(out, c06GatedX(1, 2, false, false, 1, true, Bounds{2, 2, 0}), c06GatedX(2, 3, true, false, 2, true, Bounds{2, 1, 0}), c06GatedX(2, 3, false, false, 2, true, Bounds{2, 1, 0}))
	}
	if tier == "quick" {
		out = append(out, c06ReleaseRace(1, Bounds{2, 2, 0}), c06ReleaseRace(2, Bounds{2, 1, 0}))
	} else {
		out = append(out, c06ReleaseRace(1, Bounds{3, 2, 0}), c06ReleaseRace(2, Bounds{2, 2, 0}), c06ReleaseRace(2, Bounds{3, 1, 0}))
	}
	if tier == "quick" {
		out = append(out, c06BackPressure(1, 2, Bounds{2, -1, 0}), c06BackPressure(2, 2, Bounds{1, 2, 0}))
	} else {
		out = append(out, c06BackPressure(1, 2, Bounds{3, -1, 0}), c06BackPressure(2, 2, Bounds{1, -1, 0}), c06BackPressure(2, 1, Bounds{2, -1, 0}))
	}
	if tier == "quick" {
		out = append(out, c06CancelRace(1, Bounds{2, 2, 0}), c06CancelRace(2, Bounds{1, 2, 0}))
	} else {
		out = append(out, c06CancelRace(1, Bounds{3, 2, 0}), c06CancelRace(2, Bounds{2, 2, 0}))
	}
	for _, pre := range [][]string{{"f", "e", "n"}, {"[ee]", "u", "v"}, {"z", "c", "[en]"}} {
		out = append(out, c06Outcomes(1, pre, Bounds{1, 1, 0}))
		if tier != "quick" {
			out = append(out, c06Outcomes(2, pre, Bounds{2, 2, 0}), c06Outcomes(3, append(append([]string{}, pre...), pre...), Bounds{1, 1, 0}))
		}
	}
	out = append(out, c06Outcomes(2, []string{"e", "[ee]"}, Bounds{1, 1, 0}))
	// option mapping: Concurrency < 1 means runtime.NumCPU(); checked on the default schedule
	ncpu := runtime.NumCPU()
	if ncpu <= 32 {
		out = append(out, c06Gated(ncpu, ncpu+1, true, false, 0, Bounds{0, 0, 0}))
		out = append(out, c06Gated(ncpu, ncpu+1, true, false, -1, Bounds{0, 0, 0}))
	}
	return out
}

// namerAssigner adds an observable method list: the only hook inside the built-in rpc.serverInfo.
type namerAssigner struct{ anyAssigner }

func (namerAssigner) Names() []string {
	vs.Yield("names")
	vs.Note("names")
	return []string{"m"}
}
