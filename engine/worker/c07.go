package main

import (
	"context"
	"fmt"
	"strings"

	"github.com/creachadair/jrpc2"
	"verif/vs"
)

// C07 — cancellation hits only its target; request ids are reserved exactly
// while a call carrying them is in flight.
//
// Stepped histories: a controller performs one operation at a time from a small
// alphabet and waits for quiescence after each, so "in flight" is unambiguous;
// all histories up to a length bound are enumerated (the operation choice is a
// free explorer choice) and every observation is compared with a reference model.

func init() { register("C07", c07Scenarios) }

type c07Op struct {
	Kind   string // call, dupbatch, mixbatch, cancel, open, stop, basectx
	ID     string
	Method string // slow, fast, err, nope, rpc; mixbatch: "<mate>,<pos>": the batch holds a slow call with ID and a mate call (fast or nope) with the other id, mate first (pos 0) or second (pos 1)
}

func (o c07Op) String() string {
	switch o.Kind {
	case "call":
		return fmt.Sprintf("call(%s,%s)", o.ID, o.Method)
	case "dupbatch":
		return fmt.Sprintf("batch[call(%s),call(%s)]", o.ID, o.ID)
	case "mixbatch":
		mate, pos := mixParts(o.Method)
		if pos == "0" {
			return fmt.Sprintf("batch[call(%s,%s),call(%s,slow)]", otherID(o.ID), mate, o.ID)
		}
		return fmt.Sprintf("batch[call(%s,slow),call(%s,%s)]", o.ID, otherID(o.ID), mate)
	}
	return fmt.Sprintf("%s(%s)", o.Kind, o.ID)
}

var c07EagerKinds = []string{"fast", "err", "errA", "errB", "errC", "nope", "rpc", "slow-open", "slow-cancel", "batch"}

var c07Methods = []string{"slow", "fast", "err", "nope", "rpc"}

func otherID(id string) string {
	if id == "1" {
		return "2"
	}
	return "1"
}

func mixParts(m string) (mate, pos string) {
	i := strings.IndexByte(m, ',')
	return m[:i], m[i+1:]
}

type c07Assigner struct{ h jrpc2.Handler }

func (a c07Assigner) Assign(ctx context.Context, m string) jrpc2.Handler {
	if strings.HasPrefix(m, "nope") {
		return nil
	}
	return a.h
}

type c07H struct {
	gates   *Gates
	tok     int
	running map[string]string // id -> method of the slow invocation that has entered and not been released
}

func (h *c07H) handler() jrpc2.Handler {
	return func(ctx context.Context, req *jrpc2.Request) (any, error) {
		h.tok++
		tok := fmt.Sprintf("tok%d", h.tok)
		vs.Event("h_enter", req.Method(), req.ID(), tok)
		if strings.HasPrefix(req.Method(), "slow") {
			h.running[req.ID()] = req.Method()
			h.gates.Wait(req.Method())
		}
		vs.Yield("h_exit")
		vs.Note("h_exit", req.Method(), req.ID(), tok, ctxErrStr(ctx))
		if strings.HasPrefix(req.Method(), "err") {
			if strings.HasPrefix(req.Method(), "errC") {
				return nil, c07CodeErr{tok}
			}
			return nil, jrpc2.Errorf(jrpc2.Code(c07ErrCode(req.Method())), "failed %s", tok)
		}
		return tok, nil
	}
}

// c07ErrCode is the code the "err..." handler fails with. It depends on the
// method name only, so that the codes the server itself uses for requests it
// refuses (-32600, -32601, -32700) also occur as the outcome of a handler that
// did run: the id of such a call must be released like any other.
func c07ErrCode(method string) int {
	tag := strings.TrimPrefix(method, "err")
	switch {
	case strings.HasPrefix(tag, "A"):
		return -32600
	case strings.HasPrefix(tag, "B"):
		return -32700
	case strings.HasPrefix(tag, "C"):
		return -32601
	}
	n := 0
	fmt.Sscanf(tag, "%d", &n)
	return []int{-32601, -32600, -32700, 77}[n%4]
}

// c07CodeErr is an error that is not a *jrpc2.Error but reports a code.
type c07CodeErr struct{ tok string }

func (e c07CodeErr) Error() string        { return "failed " + e.tok }
func (e c07CodeErr) ErrCode() jrpc2.Code { return -32601 }

func c07History(first c07Op, length int, withStop bool, b Bounds) *Scenario {
	name := fmt.Sprintf("histories len<=%d first=%s", length, first)
	if withStop {
		name += " +stop/basectx"
	}
	return &Scenario{
		Name:   name,
		Params: map[string]any{"first": first.String(), "length": length, "ids": []string{"1", "2"}, "methods": c07Methods},
		Bounds: b,
		New: func() *Instance {
			h := &c07H{gates: NewGates(), running: map[string]string{}}
			body := func() {
				lib, peer, _ := NewPipe(PipeOpts{Name: "srv", CloseUnblocksRecv: true})
				baseCtx, baseCancel := cancelCauseCtx()
				srv := jrpc2.NewServer(c07Assigner{h.handler()}, &jrpc2.ServerOptions{Concurrency: 4,
					NewContext: func() context.Context { return baseCtx }})
				srv.Start(lib)
				vs.GoNamed("controller", func() {
					stopped := false
					for step := 0; step < length && !stopped; step++ {
						var cands []c07Op
						for _, id := range []string{"1", "2"} {
							for _, m := range c07Methods {
								cands = append(cands, c07Op{"call", id, m})
							}
						}
						for _, id := range []string{"1", "2"} {
							cands = append(cands, c07Op{"dupbatch", id, "fast"})
						}
						for _, id := range []string{"1", "2"} {
							for _, mate := range []string{"fast", "nope"} {
								for _, pos := range []string{"0", "1"} {
									cands = append(cands, c07Op{"mixbatch", id, mate + "," + pos})
								}
							}
						}
						for _, id := range []string{"1", "2", "3"} {
							cands = append(cands, c07Op{"cancel", id, ""})
						}
						for _, id := range []string{"1", "2"} {
							if h.running[id] != "" {
								cands = append(cands, c07Op{"open", id, ""})
							}
						}
						if withStop {
							cands = append(cands, c07Op{"stop", "", ""}, c07Op{"basectx", "", ""})
						}
						var op c07Op
						if step == 0 {
							op = first
						} else {
							op = cands[vs.ChooseFree(len(cands), "op")]
						}
						vs.Note("op", fmt.Sprint(step), op.Kind, op.ID, op.Method)
						mname := fmt.Sprintf("%s%d", op.Method, step)
						if op.Method == "rpc" {
							mname = fmt.Sprintf("rpc.x%d", step)
						}
						switch op.Kind {
						case "call":
							peer.Send([]byte(fmt.Sprintf(`{"jsonrpc":"2.0","id":%s,"method":%q}`, op.ID, mname)))
						case "dupbatch":
							peer.Send([]byte(fmt.Sprintf(`[{"jsonrpc":"2.0","id":%s,"method":"fast%da"},{"jsonrpc":"2.0","id":%s,"method":"fast%db"}]`, op.ID, step, op.ID, step)))
						case "mixbatch":
							mate, pos := mixParts(op.Method)
							slowJ := fmt.Sprintf(`{"jsonrpc":"2.0","id":%s,"method":"slow%d"}`, op.ID, step)
							mateJ := fmt.Sprintf(`{"jsonrpc":"2.0","id":%s,"method":"%s%d"}`, otherID(op.ID), mate, step)
							if pos == "0" {
								peer.Send([]byte("[" + mateJ + "," + slowJ + "]"))
							} else {
								peer.Send([]byte("[" + slowJ + "," + mateJ + "]"))
							}
						case "cancel":
							srv.CancelRequest(op.ID)
						case "open":
							m := h.running[op.ID]
							delete(h.running, op.ID)
							h.gates.Open(m)
						case "stop":
							srv.Stop()
							stopped = true
						case "basectx":
							baseCancel()
						}
						vs.AwaitQuiescence()
						keys, ok := privKeys(srv, "used")
						vs.Note("quiet", fmt.Sprint(step), strings.Join(keys, ","), fmt.Sprint(ok))
					}
					// wind down: release every parked handler
					for id, m := range h.running {
						delete(h.running, id)
						h.gates.Open(m)
					}
					vs.AwaitQuiescence()
					keys, ok := privKeys(srv, "used")
					vs.Note("quiet", "final", strings.Join(keys, ","), fmt.Sprint(ok))
					peer.Close()
				})
				srv.WaitStatus()
				baseCancel()
			}
			return &Instance{Body: body, Check: func(x *vs.Exec) []Viol { return c07Check(x) }}
		},
	}
}

// c07Check replays the operation history through the reference model.
func c07Check(x *vs.Exec) []Viol {
	v := genericRules(x, nil)
	if x.Outcome != "ok" {
		return v
	}
	type inv struct {
		method    string
		cancelled bool // a justified cancellation cause has occurred
	}
	inflight := map[string]*inv{} // reference model: id -> running slow invocation
	// ids of batch members whose own work is finished (or that had no handler) but whose reply is
	// held back until a slow batch-mate finishes: whether such an id counts as in flight is not
	// specified (the call's reply has not been sent yet), so either answer is accepted for them
	limbo := map[string]string{} // id -> id of the slow mate it waits for
	inBatch := map[string]bool{} // id of a running slow call that is a member of a two-member batch
	globalCancel := false        // Stop or base context end: every later observation may be cancelled
	stopped := false
	// split the log into windows [op k, quiet k]
	type window struct {
		op       vs.Ev
		from, to int
	}
	var wins []window
	for i, e := range x.Log {
		if e.K == "op" {
			q := findEv(x, i, "quiet", e.Arg(0))
			if q < 0 {
				return append(v, Viol{"C07.R0", "no quiescent point after operation " + e.String()})
			}
			wins = append(wins, window{e, i, q})
		}
	}
	sortedKeys := func() string {
		var ks []string
		for _, id := range []string{"1", "2"} {
			if inflight[id] != nil {
				ks = append(ks, id)
			}
		}
		return strings.Join(ks, ",")
	}
	for _, w := range wins {
		kind, id, method, step := w.op.Arg(1), w.op.Arg(2), w.op.Arg(3), w.op.Arg(0)
		// observations in the window
		var outs []RMsg
		var outRaw []string
		for i := w.from; i <= w.to; i++ {
			e := x.Log[i]
			if e.K == "out" {
				ms, _, err := parseRecord([]byte(e.Arg(1)))
				if err != nil {
					v = append(v, Viol{"C07.R0", "unparsable output " + e.Arg(1)})
				}
				outs = append(outs, ms...)
				outRaw = append(outRaw, e.Arg(1))
			}
		}
		entered := func(prefix string) int {
			n := 0
			for i := w.from; i <= w.to; i++ {
				if x.Log[i].K == "h_enter" && strings.HasPrefix(x.Log[i].Arg(0), prefix) {
					n++
				}
			}
			return n
		}
		desc := fmt.Sprintf("step %s %s(%s,%s) with ids in flight {%s}", step, kind, id, method, sortedKeys())
		switch kind {
		case "mixbatch":
			if stopped || globalCancel {
				// only bookkeeping: which slow invocations started
				if entered("slow"+step) == 1 && inflight[id] == nil {
					inflight[id] = &inv{method: "slow" + step, cancelled: true}
					inBatch[id] = true
				}
				continue
			}
			if _, lim := limbo[id]; lim && inflight[id] == nil {
				// the slow member reuses an id whose earlier reply is still held back: unspecified window
				if entered("slow"+step) == 1 {
					inflight[id] = &inv{method: "slow" + step}
					inBatch[id] = true
				}
				continue
			}
			mid := otherID(id)
			slowDup := inflight[id] != nil
			_, mateLimbo := limbo[mid]
			mateDup := inflight[mid] != nil
			Hit("C07.R1")
			switch {
			case slowDup && (mateDup || mateLimbo):
				// nothing runs for certain only if the mate is rejected too; judged loosely
			case slowDup:
				// the slow member is rejected; the mate runs alone and the batch is answered at once
				if len(outs) != 2 {
					v = append(v, Viol{"C07.R1", desc + ": expected one reply array with both members, got " + strings.Join(outRaw, " ")})
				}
				for _, o := range outs {
					if o.ID() == id && !isDupErr(o) {
						v = append(v, Viol{"C07.R1", desc + ": the member reusing in-flight id " + id + " was not rejected: " + string(o.Raw)})
					}
				}
				if entered("slow"+step) != 0 {
					v = append(v, Viol{"C07.R1", desc + ": handler ran for a request with an id that is in flight"})
				}
			default:
				// the slow member starts; the reply of the whole batch is held back
				if entered("slow"+step) != 1 || len(outs) != 0 {
					v = append(v, Viol{"C07.R2", desc + ": expected the slow member to start and no reply yet, got " + strings.Join(outRaw, " ")})
				}
				inflight[id] = &inv{method: "slow" + step, cancelled: false}
				inBatch[id] = true
				if !mateDup {
					limbo[mid] = id
				}
			}
			_ = mateLimbo
		case "call":
			mname := fmt.Sprintf("%s%s", method, step)
			if method == "rpc" {
				mname = "rpc.x" + step
			}
			if stopped {
				continue
			}
			if _, lim := limbo[id]; lim && inflight[id] == nil {
				// unspecified window: accepted or rejected; if a slow call was accepted it is now in flight
				if method == "slow" && entered(mname) == 1 {
					inflight[id] = &inv{method: mname, cancelled: globalCancel}
				}
				continue
			}
			if inflight[id] != nil {
				Hit("C07.R1")
				if len(outs) != 1 || outs[0].ID() != id || !isDupErr(outs[0]) {
					v = append(v, Viol{"C07.R1", desc + ": expected rejection -32600 'duplicate request ID', got " + strings.Join(outRaw, " ")})
				}
				if entered(mname) != 0 {
					v = append(v, Viol{"C07.R1", desc + ": handler ran for a request with an id that is in flight"})
				}
				continue
			}
			Hit("C07.R2")
			for _, o := range outs {
				if o.ID() == id && isDupErr(o) {
					v = append(v, Viol{"C07.R2", desc + ": id is not in flight, yet the request was rejected as duplicate: " + string(o.Raw)})
				}
			}
			if globalCancel {
				// after the base context ended every new call is cancelled before or while it runs:
				// only the reservation bookkeeping is judged
				if method == "slow" && entered(mname) == 1 {
					inflight[id] = &inv{method: mname, cancelled: true}
				}
				break
			}
			switch method {
			case "slow":
				if entered(mname) != 1 || len(outs) != 0 {
					if len(outs) == 0 || !isDupErr(outs[0]) {
						v = append(v, Viol{"C07.R2", desc + ": expected the handler to start and no reply yet, got " + strings.Join(outRaw, " ")})
					}
				}
				inflight[id] = &inv{method: mname, cancelled: globalCancel}
			case "fast":
				if len(outs) != 1 || outs[0].ID() != id || !outs[0].Has("result") {
					if len(outs) == 0 || !isDupErr(outs[0]) {
						v = append(v, Viol{"C07.R2", desc + ": expected one result reply, got " + strings.Join(outRaw, " ")})
					}
				}
			case "err":
				if c, ok := firstCode(outs); len(outs) != 1 || !ok || c != c07ErrCode(mname) {
					if len(outs) == 0 || !isDupErr(outs[0]) {
						v = append(v, Viol{"C07.R2", desc + ": expected the handler's error reply, got " + strings.Join(outRaw, " ")})
					}
				}
			case "nope", "rpc":
				if c, ok := firstCode(outs); len(outs) != 1 || !ok || c != -32601 {
					if len(outs) == 0 || !isDupErr(outs[0]) {
						v = append(v, Viol{"C07.R2", desc + ": expected -32601, got " + strings.Join(outRaw, " ")})
					}
				}
			}
		case "dupbatch":
			if stopped {
				continue
			}
			Hit("C07.R1")
			if len(outs) != 2 || !isDupErr(outs[0]) || !isDupErr(outs[1]) {
				v = append(v, Viol{"C07.R1", desc + ": both members of an in-batch duplicate must fail with -32600, got " + strings.Join(outRaw, " ")})
			}
			if entered("fast"+step) != 0 {
				v = append(v, Viol{"C07.R1", desc + ": handler ran for an in-batch duplicate"})
			}
		case "cancel":
			if len(outs) != 0 {
				v = append(v, Viol{"C07.R4", desc + ": CancelRequest produced output " + strings.Join(outRaw, " ")})
			}
			if iv := inflight[id]; iv != nil {
				iv.cancelled = true
			}
		case "open":
			iv := inflight[id]
			if iv == nil {
				continue
			}
			delete(inflight, id)
			hadMate := inBatch[id]
			delete(inBatch, id)
			for m, s := range limbo {
				if s == id {
					delete(limbo, m)
					hadMate = true
				}
			}
			if stopped {
				continue
			}
			Hit("C07.R2")
			found := false
			for _, o := range outs {
				if o.ID() == id && o.Has("result") {
					found = true
				}
			}
			if !found || (!hadMate && len(outs) != 1) {
				v = append(v, Viol{"C07.R2", desc + ": expected the reply of the released call, got " + strings.Join(outRaw, " ")})
			}
		case "stop":
			stopped = true
			globalCancel = true
			for _, iv := range inflight {
				iv.cancelled = true
			}
		case "basectx":
			globalCancel = true
			for _, iv := range inflight {
				iv.cancelled = true
			}
		}
		// R3: contexts observed in this window
		for i := w.from; i <= w.to; i++ {
			e := x.Log[i]
			if e.K != "h_exit" {
				continue
			}
			Hit("C07.R3")
			if e.Arg(3) == "-" {
				continue
			}
			just := globalCancel
			if kind == "open" || kind == "stop" {
				// the released invocation: was a cause recorded for it?
				for _, w2 := range wins {
					if w2.op.Arg(1) == "cancel" && w2.op.Arg(2) == e.Arg(1) && w2.from < i {
						// a CancelRequest for this id happened earlier; justified only if this very invocation was in flight then
						en := findEv(x, 0, "h_enter", e.Arg(0))
						if en >= 0 && en < w2.from {
							just = true
						}
					}
				}
			}
			if !just {
				v = append(v, Viol{"C07.R3", fmt.Sprintf("%s: handler %s (id %s) saw its context cancelled (%s) without CancelRequest for its id, Stop or base-context end", desc, e.Arg(0), e.Arg(1), e.Arg(3))})
			}
		}
		// R5: reserved ids at the quiescent point = ids in flight per the model
		q := x.Log[w.to]
		if q.Arg(2) == "true" && !stopped {
			Hit("C07.R5")
			if q.Arg(1) != sortedKeys() && !limboExplains(q.Arg(1), inflight2ids(sortedKeys()), limbo) {
				v = append(v, Viol{"C07.R5", fmt.Sprintf("after %s: reserved ids {%s}, but the calls in flight are {%s}", desc, q.Arg(1), sortedKeys())})
			}
		}
	}
	if f := findEv(x, 0, "quiet", "final"); f >= 0 && x.Log[f].Arg(2) == "true" {
		Hit("C07.R5")
		if x.Log[f].Arg(1) != "" {
			v = append(v, Viol{"C07.R5", "ids still reserved after every call has been answered: {" + x.Log[f].Arg(1) + "}"})
		}
	}
	return v
}

func inflight2ids(s string) map[string]bool {
	out := map[string]bool{}
	for _, k := range strings.Split(s, ",") {
		if k != "" {
			out[k] = true
		}
	}
	return out
}

// limboExplains: the reserved set equals the in-flight set plus any subset of the ids in limbo.
func limboExplains(reserved string, inflight map[string]bool, limbo map[string]string) bool {
	res := inflight2ids(reserved)
	for k := range inflight {
		if !res[k] {
			return false
		}
	}
	for k := range res {
		if !inflight[k] {
			if _, ok := limbo[k]; !ok {
				return false
			}
		}
	}
	return true
}

func isDupErr(m RMsg) bool {
	c, ok := m.ErrCode()
	return ok && c == -32600 && strings.Contains(m.ErrMessage(), "duplicate request ID")
}

func firstCode(ms []RMsg) (int, bool) {
	if len(ms) == 0 {
		return 0, false
	}
	return ms[0].ErrCode()
}

// c07Eager: a peer that re-uses an id the instant it has received the reply carrying it (no
// quiescent point in between): the reply has been sent, so the id must be accepted again.
// kind: fast, err, nope, rpc (the first call), slow-open (parked handler released by the
// controller), slow-cancel (CancelRequest, then released), batch (two calls, ids re-used crosswise).
func c07Eager(kind string, b Bounds) *Scenario {
	return &Scenario{
		Name:   "eager id re-use after reply: first=" + kind,
		Params: map[string]any{"first": kind, "reuse": "sent by the peer as soon as it has received the reply, while the server may still be finishing the delivery"},
		Bounds: b,
		New: func() *Instance {
			h := &c07H{gates: NewGates(), running: map[string]string{}}
			body := func() {
				lib, peer, _ := NewPipe(PipeOpts{Name: "srv", CloseUnblocksRecv: true})
				srv := jrpc2.NewServer(c07Assigner{h.handler()}, &jrpc2.ServerOptions{Concurrency: 4})
				srv.Start(lib)
				bad := func(msg string) { vs.Yield("report"); vs.Note("eager-viol", msg) }
				vs.GoNamed("peer", func() {
					defer peer.Close()
					switch kind {
					case "batch":
						peer.Send([]byte(`[{"jsonrpc":"2.0","id":1,"method":"fast0a"},{"jsonrpc":"2.0","id":2,"method":"fast0b"}]`))
					case "slow-open", "slow-cancel":
						peer.Send([]byte(`{"jsonrpc":"2.0","id":1,"method":"slow0"}`))
						vs.Await(func() bool { return h.running["1"] != "" }, "handler parked")
						if kind == "slow-cancel" {
							srv.CancelRequest("1")
						}
						delete(h.running, "1")
						h.gates.Open("slow0")
					case "rpc":
						peer.Send([]byte(`{"jsonrpc":"2.0","id":1,"method":"rpc.x0"}`))
					default:
						peer.Send([]byte(fmt.Sprintf(`{"jsonrpc":"2.0","id":1,"method":"%s0"}`, kind)))
					}
					r1, ok := peer.Recv()
					if !ok {
						bad("no reply to the first message")
						return
					}
					// the reply is in the peer's hands: re-use its id(s) at once
					if kind == "batch" {
						peer.Send([]byte(`[{"jsonrpc":"2.0","id":2,"method":"fast1a"},{"jsonrpc":"2.0","id":1,"method":"fast1b"}]`))
					} else {
						peer.Send([]byte(`{"jsonrpc":"2.0","id":1,"method":"fast1"}`))
					}
					r2, ok := peer.Recv()
					if !ok {
						bad("no reply to the message re-using the id; first reply " + string(r1))
						return
					}
					ms, _, _ := parseRecord(r2)
					for _, m := range ms {
						if m.Has("error") {
							bad(fmt.Sprintf("id %s re-used after its reply %s had been received, but the new call was refused: %s", m.ID(), r1, m.Raw))
						}
					}
					vs.AwaitQuiescence()
					if keys, ok := privKeys(srv, "used"); ok && len(keys) > 0 {
						bad("ids still reserved after every call has been answered: " + strings.Join(keys, ","))
					}
				})
				srv.WaitStatus()
			}
			return &Instance{Body: body, Check: func(x *vs.Exec) []Viol {
				v := genericRules(x, nil)
				Hit("C07.R6")
				n := 0
				for _, e := range x.Log {
					switch e.K {
					case "eager-viol":
						v = append(v, Viol{"C07.R6", e.Arg(0)})
					case "h_enter":
						n++
					}
				}
				want := 2
				if kind == "nope" || kind == "rpc" {
					want = 1
				} else if kind == "batch" {
					want = 4
				}
				if x.Outcome == "ok" && len(v) == 0 && n != want {
					v = append(v, Viol{"C07.R6", fmt.Sprintf("%d handler invocations, expected %d", n, want)})
				}
				return v
			}}
		},
	}
}

// c07Restart: a call is in flight when the first connection ends (Stop or the peer hanging up); after
// Wait the server is started on a fresh channel, where the same id must be free again and a
// cancellation aimed at it must reach only the call of the new connection.
func c07Restart(end string, b Bounds) *Scenario {
	return &Scenario{
		Name:   "restart: call(1,slow) in flight when the connection ends by " + end + ", then id 1 on a new connection",
		Params: map[string]any{"first_connection_ends_by": end},
		Bounds: b,
		New: func() *Instance {
			h := &c07H{gates: NewGates(), running: map[string]string{}}
			body := func() {
				srv := jrpc2.NewServer(c07Assigner{h.handler()}, &jrpc2.ServerOptions{Concurrency: 4})
				lib, peer, _ := NewPipe(PipeOpts{Name: "srv0", CloseUnblocksRecv: true, Quiet: true})
				srv.Start(lib)
				peer.Send([]byte(`{"jsonrpc":"2.0","id":1,"method":"slow0"}`))
				vs.Await(func() bool { return h.running["1"] != "" }, "handler parked")
				vs.GoNamed("opener", func() {
					vs.AwaitQuiescence()
					delete(h.running, "1")
					h.gates.Open("slow0")
				})
				if end == "stop" {
					srv.Stop()
				} else {
					peer.Close()
				}
				srv.Wait()
				keys, ok := privKeys(srv, "used")
				vs.Note("quiet", "after-wait", strings.Join(keys, ","), fmt.Sprint(ok))
				lib2, peer2, _ := NewPipe(PipeOpts{Name: "srv", CloseUnblocksRecv: true})
				srv.Start(lib2)
				peer2.Send([]byte(`{"jsonrpc":"2.0","id":1,"method":"slow1"}`))
				vs.AwaitQuiescence()
				if h.running["1"] == "" {
					vs.Note("restart-viol", "the call re-using id 1 on the new connection did not reach its handler")
				}
				peer2.Send([]byte(`{"jsonrpc":"2.0","id":1,"method":"fast2"}`)) // a duplicate now: must be refused
				vs.AwaitQuiescence()
				delete(h.running, "1")
				h.gates.Open("slow1")
				vs.AwaitQuiescence()
				keys, ok = privKeys(srv, "used")
				vs.Note("quiet", "final", strings.Join(keys, ","), fmt.Sprint(ok))
				peer2.Close()
				srv.WaitStatus()
			}
			check := func(x *vs.Exec) []Viol {
				v := genericRules(x, nil)
				if x.Outcome != "ok" {
					return v
				}
				Hit("C07.R5")
				for _, e := range x.Log {
					switch e.K {
					case "restart-viol":
						v = append(v, Viol{"C07.R2", e.Arg(0)})
					case "quiet":
						if e.Arg(2) == "true" && e.Arg(1) != "" {
							v = append(v, Viol{"C07.R5", "ids still reserved (" + e.Arg(1) + ") at '" + e.Arg(0) + "' although no call is in flight"})
						}
					case "h_exit":
						if e.Arg(0) == "slow1" && e.Arg(3) != "-" {
							v = append(v, Viol{"C07.R3", "the call on the new connection saw its context cancelled (" + e.Arg(3) + ") without any cause"})
						}
					}
				}
				outs := outEvents(x, "srv")
				var raws []string
				for _, o := range outs {
					raws = append(raws, o.Raw)
				}
				Hit("C07.R1")
				if len(outs) != 2 {
					return append(v, Viol{"C07.R1", "expected two replies on the new connection (the duplicate's rejection, then the result), got " + strings.Join(raws, " ")})
				}
				m0, _, _ := parseRecord([]byte(outs[0].Raw))
				m1, _, _ := parseRecord([]byte(outs[1].Raw))
				if len(m0) != 1 || !isDupErr(m0[0]) {
					v = append(v, Viol{"C07.R1", "the duplicate of the in-flight id was not refused with -32600: " + outs[0].Raw})
				}
				if len(m1) != 1 || !m1[0].Has("result") {
					v = append(v, Viol{"C07.R2", "the call re-using id 1 on the new connection was not answered with its result: " + outs[1].Raw})
				}
				return v
			}
			return &Instance{Body: body, Check: check}
		},
	}
}

// c07NearID: CancelRequest naming an id whose text merely resembles the id of the call in flight
// (the number 7 versus the string "7", and the other way round): a different id, so nothing happens.
func c07NearID(callID, cancelID string, b Bounds) *Scenario {
	return &Scenario{
		Name:   fmt.Sprintf("call with id %s in flight, CancelRequest(%s): another id", callID, cancelID),
		Params: map[string]any{"call_id": callID, "cancel_id": cancelID},
		Bounds: b,
		New: func() *Instance {
			h := &c07H{gates: NewGates(), running: map[string]string{}}
			body := func() {
				lib, peer, _ := NewPipe(PipeOpts{Name: "srv", CloseUnblocksRecv: true})
				srv := jrpc2.NewServer(c07Assigner{h.handler()}, &jrpc2.ServerOptions{Concurrency: 4})
				srv.Start(lib)
				peer.Send([]byte(fmt.Sprintf(`{"jsonrpc":"2.0","id":%s,"method":"slow0"}`, callID)))
				vs.Await(func() bool { return len(h.running) == 1 }, "handler parked")
				srv.CancelRequest(cancelID)
				vs.AwaitQuiescence()
				keys, ok := privKeys(srv, "used")
				vs.Note("quiet", "after-cancel", strings.Join(keys, "|"), fmt.Sprint(ok))
				// a duplicate of the real id is still refused, the look-alike id is free
				peer.Send([]byte(fmt.Sprintf(`{"jsonrpc":"2.0","id":%s,"method":"fast1"}`, callID)))
				vs.AwaitQuiescence()
				peer.Send([]byte(fmt.Sprintf(`{"jsonrpc":"2.0","id":%s,"method":"fast2"}`, cancelID)))
				vs.AwaitQuiescence()
				for id := range h.running {
					delete(h.running, id)
				}
				h.gates.Open("slow0")
				vs.AwaitQuiescence()
				peer.Close()
				srv.WaitStatus()
			}
			check := func(x *vs.Exec) []Viol {
				v := genericRules(x, nil)
				if x.Outcome != "ok" {
					return v
				}
				Hit("C07.R4")
				for _, e := range x.Log {
					switch e.K {
					case "h_exit":
						if e.Arg(0) == "slow0" && e.Arg(3) != "-" {
							v = append(v, Viol{"C07.R3", fmt.Sprintf("the call with id %s saw its context cancelled (%s) by CancelRequest(%s), which names another id", callID, e.Arg(3), cancelID)})
						}
					case "quiet":
						if e.Arg(2) == "true" && e.Arg(1) != callID {
							v = append(v, Viol{"C07.R5", fmt.Sprintf("after CancelRequest(%s) the reserved ids are {%s}, the call in flight has id %s", cancelID, e.Arg(1), callID)})
						}
					}
				}
				outs := outEvents(x, "srv")
				if len(outs) != 3 {
					return append(v, Viol{"C07.R1", fmt.Sprintf("expected three replies (duplicate refused, look-alike id served, the call itself), got %d", len(outs))})
				}
				m0, _, _ := parseRecord([]byte(outs[0].Raw))
				m1, _, _ := parseRecord([]byte(outs[1].Raw))
				m2, _, _ := parseRecord([]byte(outs[2].Raw))
				if len(m0) != 1 || !isDupErr(m0[0]) {
					v = append(v, Viol{"C07.R1", "the duplicate of the in-flight id was not refused: " + outs[0].Raw})
				}
				if len(m1) != 1 || !m1[0].Has("result") || m1[0].ID() != cancelID {
					v = append(v, Viol{"C07.R2", "the call with the look-alike id was not served: " + outs[1].Raw})
				}
				if len(m2) != 1 || !m2[0].Has("result") || m2[0].ID() != callID {
					v = append(v, Viol{"C07.R3", "the call in flight did not complete with its result: " + outs[2].Raw})
				}
				return v
			}
			return &Instance{Body: body, Check: check}
		},
	}
}

// c07SlotWait: with Concurrency 1 a batch member waits for the only handler slot behind its batch-mate
// and is cancelled while waiting. Its reply is held back with the batch, so its id stays reserved until
// the batch reply has been sent: a request re-using it meanwhile is a duplicate.
func c07SlotWait(b Bounds) *Scenario {
	return &Scenario{
		Name:   "Concurrency 1: batch[slow(2),fast(1)], CancelRequest(1) while it waits for the slot, id 1 re-used before and after the batch reply",
		Params: map[string]any{"concurrency": 1},
		Bounds: b,
		New: func() *Instance {
			h := &c07H{gates: NewGates(), running: map[string]string{}}
			body := func() {
				lib, peer, _ := NewPipe(PipeOpts{Name: "srv", CloseUnblocksRecv: true})
				srv := jrpc2.NewServer(c07Assigner{h.handler()}, &jrpc2.ServerOptions{Concurrency: 1})
				srv.Start(lib)
				peer.Send([]byte(`[{"jsonrpc":"2.0","id":2,"method":"slow0"},{"jsonrpc":"2.0","id":1,"method":"fast0"}]`))
				vs.AwaitQuiescence()
				if h.running["2"] == "" {
					// the fast member got the slot first and the batch is waiting for the slow one all the same
					vs.Note("order", "fast-first")
				}
				srv.CancelRequest("1")
				vs.AwaitQuiescence()
				keys, ok := privKeys(srv, "used")
				vs.Note("quiet", "after-cancel", strings.Join(keys, ","), fmt.Sprint(ok))
				peer.Send([]byte(`{"jsonrpc":"2.0","id":1,"method":"fast1"}`))
				vs.AwaitQuiescence()
				vs.Note("mark", "before-open")
				for id := range h.running {
					delete(h.running, id)
				}
				h.gates.Open("slow0")
				vs.AwaitQuiescence()
				keys, ok = privKeys(srv, "used")
				vs.Note("quiet", "after-batch", strings.Join(keys, ","), fmt.Sprint(ok))
				peer.Send([]byte(`{"jsonrpc":"2.0","id":1,"method":"fast2"}`))
				vs.AwaitQuiescence()
				peer.Close()
				srv.WaitStatus()
			}
			check := func(x *vs.Exec) []Viol {
				v := genericRules(x, nil)
				if x.Outcome != "ok" {
					return v
				}
				mark := findEv(x, 0, "mark", "before-open")
				Hit("C07.R5")
				for _, e := range x.Log {
					if e.K == "quiet" && e.Arg(2) == "true" {
						switch e.Arg(0) {
						case "after-cancel":
							if e.Arg(1) != "1,2" {
								v = append(v, Viol{"C07.R5", "the batch reply has not been sent, yet the reserved ids are {" + e.Arg(1) + "} instead of {1,2}"})
							}
						case "after-batch":
							if e.Arg(1) != "" {
								v = append(v, Viol{"C07.R5", "ids still reserved after the batch reply: {" + e.Arg(1) + "}"})
							}
						}
					}
				}
				var before, after []RMsg
				for _, o := range outEvents(x, "srv") {
					ms, _, _ := parseRecord([]byte(o.Raw))
					if o.At < mark {
						before = append(before, ms...)
					} else {
						after = append(after, ms...)
					}
				}
				Hit("C07.R1")
				if len(before) != 1 || !isDupErr(before[0]) {
					var raws []string
					for _, m := range before {
						raws = append(raws, string(m.Raw))
					}
					v = append(v, Viol{"C07.R1", "while the batch reply was held back, the request re-using id 1 must be refused as duplicate (and nothing else sent); got " + strings.Join(raws, " ")})
				}
				// afterwards: the batch reply (2: result, 1: some outcome) and the accepted re-use of id 1
				n1 := 0
				for _, m := range after {
					if m.ID() == "1" {
						n1++
					}
				}
				Hit("C07.R2")
				if len(after) != 3 || n1 != 2 || !after[2].Has("result") {
					var raws []string
					for _, m := range after {
						raws = append(raws, string(m.Raw))
					}
					v = append(v, Viol{"C07.R2", "expected the batch reply for ids 2 and 1, then a result for the new call with id 1; got " + strings.Join(raws, " ")})
				}
				return v
			}
			return &Instance{Body: body, Check: check}
		},
	}
}

// c07BatchDups: one batch carrying the same id k times (with another call in between): every
// member with the shared id fails with -32600, none runs, the other call is served.
func c07BatchDups(k int, b Bounds) *Scenario {
	return &Scenario{
		Name:   fmt.Sprintf("one batch with id 7 used %d times and a call with id 8 in between", k),
		Params: map[string]any{"copies": k},
		Bounds: b,
		New: func() *Instance {
			h := &c07H{gates: NewGates(), running: map[string]string{}}
			body := func() {
				lib, peer, _ := NewPipe(PipeOpts{Name: "srv", CloseUnblocksRecv: true})
				srv := jrpc2.NewServer(c07Assigner{h.handler()}, &jrpc2.ServerOptions{Concurrency: 4})
				srv.Start(lib)
				var parts []string
				for i := 0; i < k; i++ {
					parts = append(parts, fmt.Sprintf(`{"jsonrpc":"2.0","id":7,"method":"fast%d"}`, i))
					if i == 0 {
						parts = append(parts, `{"jsonrpc":"2.0","id":8,"method":"fastx"}`)
					}
				}
				peer.Send([]byte("[" + strings.Join(parts, ",") + "]"))
				vs.AwaitQuiescence()
				keys, ok := privKeys(srv, "used")
				vs.Note("quiet", "after-batch", strings.Join(keys, ","), fmt.Sprint(ok))
				peer.Close()
				srv.WaitStatus()
			}
			check := func(x *vs.Exec) []Viol {
				v := genericRules(x, nil)
				if x.Outcome != "ok" {
					return v
				}
				Hit("C07.R1")
				outs := outEvents(x, "srv")
				if len(outs) != 1 {
					return append(v, Viol{"C07.R1", fmt.Sprintf("expected one reply array, got %d records", len(outs))})
				}
				ms, _, _ := parseRecord([]byte(outs[0].Raw))
				n7, n8 := 0, 0
				for _, m := range ms {
					switch m.ID() {
					case "7":
						n7++
						if !isDupErr(m) {
							v = append(v, Viol{"C07.R1", fmt.Sprintf("a member sharing id 7 with %d others of its batch was not refused with -32600: %s", k-1, m.Raw)})
						}
					case "8":
						n8++
						if !m.Has("result") {
							v = append(v, Viol{"C07.R2", "the call with the unshared id 8 was not served: " + string(m.Raw)})
						}
					}
				}
				if n7 != k || n8 != 1 {
					v = append(v, Viol{"C07.R1", fmt.Sprintf("reply array has %d members for id 7 and %d for id 8, want %d and 1", n7, n8, k)})
				}
				nh := 0
				for _, e := range x.Log {
					if e.K == "h_enter" {
						nh++
					}
					if e.K == "quiet" && e.Arg(2) == "true" && e.Arg(1) != "" {
						v = append(v, Viol{"C07.R5", "ids still reserved after the batch reply: {" + e.Arg(1) + "}"})
					}
				}
				if nh != 1 {
					v = append(v, Viol{"C07.R1", fmt.Sprintf("%d handlers ran, only the call with id 8 may run", nh)})
				}
				return v
			}
			return &Instance{Body: body, Check: check}
		},
	}
}

// c07BatchDupsHeld: a batch in which id 7 occurs twice (both refused, neither runs) next to a slow call
// with id 8. While call 8 is still executing - so the batch has not been answered yet - no call with id 7
// is in flight: a separate request with id 7 must be accepted.
func c07BatchDupsHeld(b Bounds) *Scenario {
	return &Scenario{
		Name:   "batch [call(7), slow call(8), call(7)]: id 7 is used again while call 8 still runs",
		Params: map[string]any{},
		Bounds: b,
		New: func() *Instance {
			h := &c07H{gates: NewGates(), running: map[string]string{}}
			body := func() {
				lib, peer, _ := NewPipe(PipeOpts{Name: "srv", CloseUnblocksRecv: true})
				srv := jrpc2.NewServer(c07Assigner{h.handler()}, &jrpc2.ServerOptions{Concurrency: 4})
				srv.Start(lib)
				bad := func(msg string) { vs.Yield("report"); vs.Note("eager-viol", msg) }
				vs.GoNamed("peer", func() {
					defer peer.Close()
					peer.Send([]byte(`[{"jsonrpc":"2.0","id":7,"method":"fast0"},{"jsonrpc":"2.0","id":8,"method":"slow0"},{"jsonrpc":"2.0","id":7,"method":"fast1"}]`))
					vs.Await(func() bool { return h.running["8"] != "" }, "handler parked")
					vs.AwaitQuiescence()
					if keys, ok := privKeys(srv, "used"); ok && strings.Join(keys, ",") != "8" {
						bad("only call 8 is in flight (both members with id 7 were refused), but the reserved ids are {" + strings.Join(keys, ",") + "}")
					}
					peer.Send([]byte(`{"jsonrpc":"2.0","id":7,"method":"fast2"}`))
					r, ok := peer.Recv()
					if !ok {
						bad("no reply to the separate call with id 7")
						return
					}
					ms, _, _ := parseRecord(r)
					if len(ms) != 1 || ms[0].ID() != "7" || !ms[0].Has("result") {
						bad("no call with id 7 is in flight (the two batch members sharing it were refused), but a separate call with id 7 got " + string(r))
					}
					delete(h.running, "8")
					h.gates.Open("slow0")
					r2, ok := peer.Recv()
					ms2, _, _ := parseRecord(r2)
					n7, n8 := 0, 0
					for _, m := range ms2 {
						if m.ID() == "7" && isDupErr(m) {
							n7++
						}
						if m.ID() == "8" && m.Has("result") {
							n8++
						}
					}
					if !ok || n7 != 2 || n8 != 1 {
						bad("the batch must be answered with two duplicate-id errors for id 7 and the result of call 8, got " + string(r2))
					}
					vs.AwaitQuiescence()
					if keys, ok := privKeys(srv, "used"); ok && len(keys) > 0 {
						bad("ids still reserved after every call has been answered: " + strings.Join(keys, ","))
					}
				})
				srv.WaitStatus()
			}
			return &Instance{Body: body, Check: func(x *vs.Exec) []Viol {
				v := genericRules(x, nil)
				Hit("C07.R1")
				for _, e := range x.Log {
					if e.K == "eager-viol" {
						v = append(v, Viol{"C07.R1", e.Arg(0)})
					}
				}
				return v
			}}
		},
	}
}

// c07Notes: notifications carry no id, so they reserve nothing and are never duplicates of each other:
// two in one batch, two spelled with an explicit null id (in one batch and one after the other), and
// CancelRequest of ids no call carries ("" and "null") while a notification handler is running.
func c07Notes(b Bounds) *Scenario {
	msgs := []string{
		`[{"jsonrpc":"2.0","method":"fastn0"},{"jsonrpc":"2.0","method":"fastn1"}]`,
		`[{"jsonrpc":"2.0","id":null,"method":"fastn2"},{"jsonrpc":"2.0","id":null,"method":"fastn3"}]`,
		`{"jsonrpc":"2.0","id":null,"method":"fastn4"}`,
		`{"jsonrpc":"2.0","id":null,"method":"fastn5"}`,
		`{"jsonrpc":"2.0","method":"slown6"}`,
	}
	return &Scenario{
		Name:   "notifications (plain and with a null id, in one batch and in sequence) reserve nothing; CancelRequest(\"\") and (\"null\") reach no handler",
		Params: map[string]any{"messages": msgs},
		Bounds: b,
		New: func() *Instance {
			h := &c07H{gates: NewGates(), running: map[string]string{}}
			body := func() {
				lib, peer, _ := NewPipe(PipeOpts{Name: "srv", CloseUnblocksRecv: true})
				srv := jrpc2.NewServer(c07Assigner{h.handler()}, &jrpc2.ServerOptions{Concurrency: 4})
				srv.Start(lib)
				for _, m := range msgs {
					peer.Send([]byte(m))
					vs.AwaitQuiescence()
					keys, ok := privKeys(srv, "used")
					vs.Note("after", m, strings.Join(keys, ","), fmt.Sprint(ok))
				}
				// slown6 is parked in its handler now
				srv.CancelRequest("")
				srv.CancelRequest("null")
				vs.AwaitQuiescence()
				vs.Note("cancelled-nothing")
				h.gates.Open("slown6")
				vs.AwaitQuiescence()
				peer.Close()
				srv.WaitStatus()
			}
			check := func(x *vs.Exec) []Viol {
				v := genericRules(x, nil)
				if x.Outcome != "ok" {
					return v
				}
				Hit("C07.R1")
				for _, o := range outEvents(x, "srv") {
					v = append(v, Viol{"C07.R1", "notifications must not be answered, let alone refused as duplicates: the server sent " + o.Raw})
				}
				entered := map[string]bool{}
				for _, e := range x.Log {
					switch e.K {
					case "h_enter":
						entered[e.Arg(0)] = true
					case "after":
						if e.Arg(2) == "true" && e.Arg(1) != "" {
							v = append(v, Viol{"C07.R5", "after " + e.Arg(0) + " the reserved ids are {" + e.Arg(1) + "}: notifications reserve no id"})
						}
					case "h_exit":
						if e.Arg(0) == "slown6" && e.Arg(3) != "-" {
							v = append(v, Viol{"C07.R3", "CancelRequest of an id no call carries cancelled the running notification handler: context " + e.Arg(3)})
						}
					}
				}
				for _, m := range []string{"fastn0", "fastn1", "fastn2", "fastn3", "fastn4", "fastn5", "slown6"} {
					if !entered[m] {
						v = append(v, Viol{"C07.R1", "the handler of notification " + m + " never ran"})
					}
				}
				return v
			}
			return &Instance{Body: body, Check: check}
		},
	}
}

// c07LostReply: the reply to a call (or to a batch) cannot be sent - the channel refuses that one
// record and stays up, the server keeps running. The calls are over all the same: their ids must be
// free again, and their contexts ended.
func c07LostReply(batch bool, b Bounds) *Scenario {
	name := "the reply to call(1) is refused by the channel once; id 1 is used again"
	if batch {
		name = "the reply to batch[call(1),call(2)] is refused by the channel once; ids 1 and 2 are used again"
	}
	return &Scenario{
		Name:   name,
		Params: map[string]any{"batch": batch, "fault": "the Send of the first reply fails, the connection stays up"},
		Bounds: b,
		New: func() *Instance {
			h := &c07H{gates: NewGates(), running: map[string]string{}}
			body := func() {
				lib, peer, pipe := NewPipe(PipeOpts{Name: "srv", CloseUnblocksRecv: true})
				srv := jrpc2.NewServer(c07Assigner{h.handler()}, &jrpc2.ServerOptions{Concurrency: 4})
				srv.Start(lib)
				bad := func(msg string) { vs.Yield("report"); vs.Note("eager-viol", msg) }
				vs.GoNamed("peer", func() {
					defer peer.Close()
					pipe.FailSend = errFault
					if batch {
						peer.Send([]byte(`[{"jsonrpc":"2.0","id":1,"method":"fast0a"},{"jsonrpc":"2.0","id":2,"method":"fast0b"}]`))
					} else {
						peer.Send([]byte(`{"jsonrpc":"2.0","id":1,"method":"fast0"}`))
					}
					vs.AwaitQuiescence()
					if pipe.FailSend != nil {
						bad("the reply was never handed to the channel")
						return
					}
					if keys, ok := privKeys(srv, "used"); ok && len(keys) > 0 {
						bad("the reply could not be sent, the calls are over, but their ids are still reserved: " + strings.Join(keys, ","))
					}
					ids := []string{"1"}
					if batch {
						ids = []string{"2", "1"}
					}
					for k, id := range ids {
						peer.Send([]byte(fmt.Sprintf(`{"jsonrpc":"2.0","id":%s,"method":"fast%d"}`, id, k+1)))
						r, ok := peer.Recv()
						if !ok {
							bad("no reply to the call re-using id " + id)
							return
						}
						ms, _, _ := parseRecord(r)
						for _, m := range ms {
							if m.Has("error") {
								bad(fmt.Sprintf("id %s is free again (its call is over, the reply was lost in the channel), but the new call was refused: %s", id, m.Raw))
							}
						}
					}
					vs.AwaitQuiescence()
					if keys, ok := privKeys(srv, "used"); ok && len(keys) > 0 {
						bad("ids still reserved after every call has been answered: " + strings.Join(keys, ","))
					}
				})
				srv.WaitStatus()
			}
			return &Instance{Body: body, Check: func(x *vs.Exec) []Viol {
				v := genericRules(x, nil)
				Hit("C07.R6")
				for _, e := range x.Log {
					if e.K == "eager-viol" {
						v = append(v, Viol{"C07.R6", e.Arg(0)})
					}
				}
				return v
			}}
		},
	}
}

func c07Scenarios(tier string) []*Scenario {
	var out []*Scenario
	out = append(out, c07LostReply(false, Bounds{1, 1, 0}), c07LostReply(true, Bounds{1, 1, 0}))
	out = append(out, c07BatchDupsHeld(Bounds{1, 1, 0}))
	out = append(out, c07Notes(Bounds{1, 1, 0}))
	var firsts []c07Op
	for _, id := range []string{"1"} { // ids are symmetric: the first operation uses id 1
		for _, m := range c07Methods {
			firsts = append(firsts, c07Op{"call", id, m})
		}
		firsts = append(firsts, c07Op{"dupbatch", id, "fast"}, c07Op{"cancel", id, ""})
		firsts = append(firsts, c07Op{"mixbatch", id, "nope,0"}, c07Op{"mixbatch", id, "fast,1"})
	}
	if tier == "quick" {
		for _, f := range firsts {
			out = append(out, c07History(f, 3, false, Bounds{1, -1, 0}))
		}
		out = append(out, c07History(c07Op{"call", "1", "slow"}, 4, false, Bounds{0, 0, 0}))
		out = append(out, c07History(c07Op{"call", "1", "slow"}, 3, true, Bounds{0, 0, 0}))
		for _, k := range c07EagerKinds {
			out = append(out, c07Eager(k, Bounds{2, -1, 0}))
			if k == "fast" || k == "batch" {
				out = append(out, c07Eager(k, Bounds{1, 1, 1})) // with one environment deviation
			}
		}
		out = append(out, c07Restart("stop", Bounds{1, -1, 0}), c07Restart("eof", Bounds{1, -1, 0}))
		out = append(out, c07NearID(`"7"`, `7`, Bounds{1, 1, 0}), c07NearID(`7`, `"7"`, Bounds{1, 1, 0}))
		out = append(out, c07SlotWait(Bounds{1, 1, 0}))
		for k := 2; k <= 5; k++ {
			out = append(out, c07BatchDups(k, Bounds{1, 1, 0}))
		}
		return out
	}
	for _, k := range c07EagerKinds {
		out = append(out, c07Eager(k, Bounds{3, -1, 1}))
	}
	out = append(out, c07Restart("stop", Bounds{2, -1, 1}), c07Restart("eof", Bounds{2, -1, 1}))
	out = append(out, c07SlotWait(Bounds{2, 2, 0}))
	for k := 2; k <= 6; k++ {
		out = append(out, c07BatchDups(k, Bounds{2, 2, 0}))
	}
	out = append(out, c07NearID(`"7"`, `7`, Bounds{2, 2, 0}), c07NearID(`7`, `"7"`, Bounds{2, 2, 0}), c07NearID(`"\"7\""`, `"7"`, Bounds{2, 2, 0}))
	for _, f := range firsts {
		out = append(out, c07History(f, 3, false, Bounds{2, -1, 0}))
		out = append(out, c07History(f, 4, false, Bounds{1, 0, 0}))
		out = append(out, c07History(f, 5, false, Bounds{0, 0, 0}))
		out = append(out, c07History(f, 4, true, Bounds{0, 0, 0}))
	}
	return out
}
