package main

import (
	"context"
	"fmt"
	"strings"

	"github.com/creachadair/jrpc2"
	"verif/vs"
)

// C08 — clean, crash-free, restartable shutdown for every stop cause and timing.

func init() { register("C08", c08Scenarios) }

type c08P struct {
	Traffic []string // tokens sent before / concurrently with the stop cause ("m" = malformed record)
	Post    []string // tokens sent after the stop cause completed
	Cause   string   // "stop", "peerclose", "faults" (an injected failure at any channel operation), "stop+peerclose", "peerclose+stop"
	Stepped bool     // the cause fires only after the traffic has been fully processed (quiescence)
	Unblock bool     // the channel's Close unblocks its Recv (socket-like) or not (stdin / Direct-like)
	Conc    int
	Push    bool // a handler pushes a Notify and a Callback (push-enabled server)
}

func (p c08P) name() string {
	mode := "free"
	if p.Stepped {
		mode = "stepped"
	}
	ch := "direct-like"
	if p.Unblock {
		ch = "socket-like"
	}
	s := fmt.Sprintf("traffic{%s} cause=%s %s %s", tokensName(p.Traffic), p.Cause, mode, ch)
	if len(p.Post) > 0 {
		s += fmt.Sprintf(" post{%s}", tokensName(p.Post))
	}
	if p.Push {
		s += " push"
	}
	if p.Conc != 0 {
		s += fmt.Sprintf(" conc=%d", p.Conc)
	}
	return s
}

func tokenJSON(tokens []string) []*msgSpec {
	// "m" is a malformed record; everything else goes through buildSeq
	var clean []string
	for _, t := range tokens {
		if t != "m" {
			clean = append(clean, t)
		} else {
			clean = append(clean, "y") // placeholder, replaced below
		}
	}
	ms := buildSeq(clean)
	for i, t := range tokens {
		if t == "m" {
			ms[i] = &msgSpec{JSON: `{"jsonrpc":"2.0",`}
		}
	}
	return ms
}

func c08Scenario(p c08P, b Bounds) *Scenario {
	return &Scenario{
		Name:   p.name(),
		Params: map[string]any{"traffic": p.Traffic, "post": p.Post, "cause": p.Cause, "stepped": p.Stepped, "close_unblocks_recv": p.Unblock, "push": p.Push},
		Bounds: b,
		New: func() *Instance {
			all := tokenJSON(append(append([]string{}, p.Traffic...), p.Post...))
			h := &seqHarness{msgs: all, gates: NewGates()}
			var srv *jrpc2.Server
			body := func() {
				lib, peer, pipe := NewPipe(PipeOpts{Name: "srv", CloseUnblocksRecv: p.Unblock, Faults: p.Cause == "faults"})
				h.pipe = pipe
				conc := p.Conc
				if conc == 0 {
					conc = 2
				}
				active0 := jrpc2.ServerMetrics().Get("servers_active").String()
				sopts := &jrpc2.ServerOptions{Concurrency: conc, AllowPush: p.Push}
				baseCancel := func() {}
				restarted := false
				if strings.Contains(p.Cause, "basectx") {
					// the application's own base context, ended by the application before it stops the server
					var baseCtx context.Context
					baseCtx, baseCancel = cancelCauseCtx()
					sopts.NewContext = func() context.Context {
						if restarted {
							return context.Background()
						}
						return baseCtx
					}
				}
				srv = jrpc2.NewServer(anyAssigner{h.handler()}, sopts)
				srv.Start(lib)
				causeDone := false
				// the peer reads until it sees the end of the stream and then closes its own end
				vs.GoNamed("peer-reader", func() {
					for {
						if _, ok := peer.Recv(); !ok {
							break
						}
					}
					peer.Close()
					vs.Note("peer-closed-after-eof")
				})
				vs.GoNamed("traffic", func() {
					for i := range p.Traffic {
						if peer.Send([]byte(all[i].JSON)) {
							vs.Note("in", fmt.Sprint(i))
						}
					}
					vs.Note("traffic-sent")
					if len(p.Post) > 0 {
						vs.Await(func() bool { return causeDone }, "await cause")
						for i := range p.Post {
							k := len(p.Traffic) + i
							if peer.Send([]byte(all[k].JSON)) {
								vs.Note("in-post", fmt.Sprint(k))
							}
						}
					}
				})
				vs.GoNamed("cause", func() {
					if p.Stepped {
						vs.AwaitQuiescence()
						vs.Note("quiet", "before-cause")
					}
					for _, c := range strings.Split(p.Cause, "+") {
						switch c {
						case "basectx":
							vs.Note("basectx-ended")
							baseCancel()
						case "stop":
							vs.Event("call", "Stop")
							srv.Stop()
							vs.Event("ret", "Stop")
						case "peerclose":
							vs.Event("call", "peerclose")
							peer.Close()
							if p.Stepped {
								vs.AwaitQuiescence()
							}
							vs.Event("ret", "peerclose")
						case "faults":
							// failures are injected by the pipe (environment choices); the connection otherwise ends by peer close
							vs.AwaitQuiescence()
							vs.Event("call", "peerclose")
							peer.Close()
							vs.Event("ret", "peerclose")
						}
					}
					causeDone = true
				})
				vs.GoNamed("opener", func() {
					// handlers parked on gates are released only when nothing else can move
					for i := 0; i < 3; i++ {
						vs.AwaitQuiescence()
						vs.Note("quiet", "opener")
						for _, m := range h.msgs {
							for _, mem := range m.Members {
								if mem.Kind == 'g' || mem.Kind == 'h' {
									h.gates.Open(mem.Method)
								}
							}
						}
					}
				})
				st := srv.WaitStatus()
				vs.Note("ret", "WaitStatus", fmt.Sprintf("stopped=%v closed=%v", st.Stopped, st.Closed), errStr(st.Err))
				// private-state snapshot (degrades to "unknown" if a field was renamed)
				used, ok1 := privLen(srv, "used")
				call, ok2 := privLen(srv, "call")
				vs.Note("snapshot", fmt.Sprintf("used=%d/%v call=%d/%v", used, ok1, call, ok2),
					fmt.Sprintf("active_delta=%v", jrpc2.ServerMetrics().Get("servers_active").String() != active0))
				// restart on a fresh channel
				lib2, peer2, _ := NewPipe(PipeOpts{Name: "srv2", CloseUnblocksRecv: true, Quiet: true})
				restarted = true
				srv.Start(lib2)
				peer2.Send([]byte(`{"jsonrpc":"2.0","id":99,"method":"c9_9"}`))
				rsp, ok := peer2.Recv()
				vs.Note("probe", string(rsp), fmt.Sprint(ok))
				peer2.Close()
				st2 := srv.WaitStatus()
				vs.Note("ret", "WaitStatus2", fmt.Sprintf("stopped=%v closed=%v", st2.Stopped, st2.Closed), errStr(st2.Err))
				// the goroutines that watch pushed calls are not among those WaitStatus waits for: the callback
				// table is judged once nothing can move any more
				vs.AwaitQuiescence()
				call2, okc := privLen(srv, "call")
				vs.Note("snapshot-final", fmt.Sprintf("call=%d/%v", call2, okc))
			}
			check := func(x *vs.Exec) []Viol {
				v := genericRules(x, nil)
				if x.Outcome != "ok" {
					return v
				}
				ws := findEv(x, 0, "ret", "WaitStatus")
				if ws < 0 {
					return append(v, Viol{"C08.R3", "WaitStatus never returned"})
				}
				// R3: WaitStatus returns after every handler of the first incarnation has returned
				Hit("C08.R3")
				enter := map[string]int{}
				for i, e := range x.Log {
					if e.K == "h_enter" {
						enter[e.Arg(2)] = i
					}
					if e.K == "h_exit" && e.Arg(0) != "c9_9" && i > ws {
						v = append(v, Viol{"C08.R3", fmt.Sprintf("WaitStatus returned before handler %s had returned", e.Arg(0))})
					}
				}
				for tok, i := range enter {
					if i < ws && findEv(x, i, "h_exit", "*", "*", tok) < 0 {
						v = append(v, Viol{"C08.R3", "WaitStatus returned while a handler was still running"})
					}
				}
				// R4: status is a cause that had occurred; first cause wins; at most one flag
				Hit("C08.R4")
				stE := x.Log[ws]
				flags, errS := stE.Arg(1), stE.Arg(2)
				callStop, retStop := findEv(x, 0, "call", "Stop"), findEv(x, 0, "ret", "Stop")
				callPC, retPC := findEv(x, 0, "call", "peerclose"), findEv(x, 0, "ret", "peerclose")
				fault := -1
				for i, e := range x.Log {
					if e.K == "fault" && strings.HasPrefix(e.Arg(1), "recv") && i < ws {
						fault = i
						break
					}
				}
				switch {
				case flags == "stopped=true closed=true":
					v = append(v, Viol{"C08.R4", "both status flags set"})
				case errS != "<nil>" && flags != "stopped=false closed=false":
					v = append(v, Viol{"C08.R4", "error status together with a flag"})
				case flags == "stopped=true closed=false":
					if callStop < 0 || callStop > ws {
						v = append(v, Viol{"C08.R4", "status Stopped although Stop had not been called"})
					}
				case flags == "stopped=false closed=true":
					peerEOF := findEv(x, 0, "peer-closed-after-eof")
					eofFault := false
					for i, e := range x.Log {
						if e.K == "fault" && e.Arg(1) == "recv-data+EOF" && i < ws {
							eofFault = true
						}
					}
					if (callPC < 0 || callPC > ws) && !eofFault && (peerEOF < 0 || peerEOF > ws) {
						v = append(v, Viol{"C08.R4", "status Closed although the channel had not been closed"})
					}
				default:
					if errS == "<nil>" {
						v = append(v, Viol{"C08.R4", "WaitStatus reports neither a flag nor an error"})
					} else if fault < 0 {
						v = append(v, Viol{"C08.R4", "status reports error " + errS + " although no receive failure was injected"})
					}
				}
				if p.Stepped && fault < 0 {
					first := strings.Split(strings.TrimPrefix(p.Cause, "basectx+"), "+")[0]
					if first == "stop" && retStop >= 0 && flags != "stopped=true closed=false" {
						v = append(v, Viol{"C08.R4", "Stop completed first but status is " + flags + " err=" + errS})
					}
					if first == "peerclose" && retPC >= 0 && (callStop < 0 || retPC < callStop) && flags != "stopped=false closed=true" {
						v = append(v, Viol{"C08.R4", "peer close was processed first but status is " + flags + " err=" + errS})
					}
				}
				// R5: call handlers in flight across the stop observe a cancelled context
				stopDone := retStop
				if stopDone >= 0 && stopDone < ws {
					for i, e := range x.Log {
						if e.K == "h_exit" && e.Arg(1) != "" && i > stopDone && i < ws {
							tok := e.Arg(2)
							if en, ok := enter[tok]; ok && en < callStop {
								Hit("C08.R5")
								if e.Arg(3) == "-" {
									v = append(v, Viol{"C08.R5", fmt.Sprintf("call handler %s was in flight when Stop completed but its context was not cancelled", e.Arg(0))})
								}
							}
						}
					}
				}
				// R5b: a call handler that only starts after Stop has completed (it was dequeued before the stop and
				// parked, e.g. behind a running notification) must find its context cancelled
				if retStop >= 0 && retStop < ws {
					for tok, en := range enter {
						if en > retStop && en < ws && x.Log[en].Arg(1) != "" && x.Log[en].Arg(0) != "c9_9" {
							Hit("C08.R5")
							if ex := findEv(x, en, "h_exit", "*", "*", tok); ex >= 0 && x.Log[ex].Arg(3) == "-" {
								v = append(v, Viol{"C08.R5", fmt.Sprintf("call handler %s started after Stop had completed and its context was never cancelled", x.Log[en].Arg(0))})
							}
						}
					}
				}
				// R6: valid notifications received (unambiguously) before the stop are handed to their handlers
				if p.Stepped && !strings.Contains(p.Cause, "basectx") { // a handler whose base context has ended need not be started
					q := findEv(x, 0, "quiet", "before-cause")
					for i, m := range h.msgs[:len(p.Traffic)] {
						for _, mem := range m.Members {
							if mem.Kind != 'n' && mem.Kind != 'h' && mem.Kind != 'z' {
								continue
							}
							in := findEv(x, 0, "in", fmt.Sprint(i))
							if in >= 0 && in < q && fault < 0 {
								Hit("C08.R6")
								if findEv(x, 0, "h_exit", mem.Method) < 0 {
									v = append(v, Viol{"C08.R6", fmt.Sprintf("notification %s was received before the stop but its handler never ran", mem.Method)})
								}
							}
						}
					}
				}
				// R6b: a record that the channel delivers together with io.EOF is still a record: a valid notification in it
				// was received before the connection ended and is handed to its handler
				for i, e := range x.Log {
					if e.K != "fault" || e.Arg(1) != "recv-data+EOF" || i+1 >= len(x.Log) || x.Log[i+1].K != "taken" {
						continue
					}
					ms, _, perr := parseRecord([]byte(x.Log[i+1].Arg(2)))
					if perr != nil || (callStop >= 0 && callStop < i) {
						continue
					}
					for _, m := range ms {
						if !m.Has("method") || (m.Has("id") && m.ID() != "null") || m.Str("jsonrpc") != `"2.0"` || m.Has("result") || m.Has("error") {
							continue
						}
						var meth string
						fmt.Sscanf(m.Str("method"), "%q", &meth)
						if strings.HasPrefix(meth, "unknown.") || meth == "" {
							continue
						}
						Hit("C08.R6")
						if findEv(x, 0, "h_exit", meth) < 0 {
							v = append(v, Viol{"C08.R6", fmt.Sprintf("notification %s arrived in the final record (delivered together with io.EOF) but its handler never ran", meth)})
						}
					}
				}
				// R7: nothing left behind
				Hit("C08.R7")
				if s := findEv(x, 0, "snapshot"); s >= 0 {
					sn := x.Log[s]
					if strings.Contains(sn.Arg(0), "used=") && !strings.HasPrefix(sn.Arg(0), "used=0/") && strings.Contains(sn.Arg(0), "/true call") {
						v = append(v, Viol{"C08.R7", "request ids still reserved after WaitStatus: " + sn.Arg(0)})
					}
					if f := findEv(x, 0, "snapshot-final"); f >= 0 {
						if a := x.Log[f].Arg(0); strings.HasSuffix(a, "/true") && a != "call=0/true" {
							v = append(v, Viol{"C08.R7", "callbacks still registered when everything has come to rest: " + a})
						}
					}
					if sn.Arg(1) != "active_delta=false" {
						v = append(v, Viol{"C08.R7", "servers_active gauge not restored after WaitStatus"})
					}
				}
				// R8: the restarted server answers a probe and ends Closed
				Hit("C08.R8")
				if pr := findEv(x, 0, "probe"); pr >= 0 {
					ms, _, err := parseRecord([]byte(x.Log[pr].Arg(0)))
					if x.Log[pr].Arg(1) != "true" || err != nil || len(ms) != 1 || ms[0].ID() != "99" || !ms[0].Has("result") {
						v = append(v, Viol{"C08.R8", "restarted server did not answer the probe call: " + x.Log[pr].Arg(0)})
					}
				} else {
					v = append(v, Viol{"C08.R8", "no probe result"})
				}
				if w2 := findEv(x, 0, "ret", "WaitStatus2"); w2 < 0 || x.Log[w2].Arg(1) != "stopped=false closed=true" {
					v = append(v, Viol{"C08.R8", "restarted server did not end with status Closed"})
				}
				return v
			}
			return &Instance{Body: body, Check: check}
		},
	}
}

func c08Scenarios(tier string) []*Scenario {
	var out []*Scenario
	add := func(p c08P, b Bounds) { out = append(out, c08Scenario(p, b)) }
	traffics := [][]string{{"c"}, {"n"}, {"g"}, {"h"}, {"y"}, {"m"}, {"[nc]"}, {"h", "n", "y"}, {"g", "c"}, {"h", "c"}, {"z"}, {"h", "n", "z"}, {"h", "[zn]", "z"}}
	if tier == "quick" {
		for _, t := range traffics {
			for _, unb := range []bool{true, false} {
				b := Bounds{1, 2, 0}
				if len(t) == 1 {
					b = Bounds{2, 1, 0}
				}
				add(c08P{Traffic: t, Cause: "stop", Unblock: unb}, b)
			}
			add(c08P{Traffic: t, Cause: "stop", Stepped: true, Unblock: true}, Bounds{1, 1, 0})
			add(c08P{Traffic: t, Cause: "peerclose", Unblock: true}, Bounds{1, 2, 0})
		}
		for _, post := range [][]string{{"c"}, {"n"}, {"m"}, {"y"}} {
			add(c08P{Traffic: []string{"c"}, Post: post, Cause: "stop", Stepped: true, Unblock: false}, Bounds{1, 1, 0})
		}
		add(c08P{Traffic: []string{"c"}, Cause: "faults", Unblock: true}, Bounds{1, 1, 1})
		add(c08P{Traffic: []string{"n", "c"}, Cause: "faults", Unblock: true}, Bounds{1, 1, 1})
		add(c08P{Traffic: []string{"g"}, Cause: "stop+peerclose", Stepped: true, Unblock: true}, Bounds{1, 1, 0})
		add(c08P{Traffic: []string{"g"}, Cause: "peerclose+stop", Stepped: true, Unblock: true}, Bounds{1, 1, 0})
		// the application ends the base context of the requests (ServerOptions.NewContext) and then stops the server,
		// with notifications queued behind a running one and a call waiting for the only slot
		for _, t := range [][]string{{"h", "n", "n"}, {"h", "[nn]", "c"}, {"g", "n", "c"}} {
			add(c08P{Traffic: t, Cause: "basectx+stop", Stepped: true, Unblock: true, Conc: 1}, Bounds{1, 1, 0})
			add(c08P{Traffic: t, Cause: "basectx+peerclose", Stepped: true, Unblock: true, Conc: 2}, Bounds{1, 1, 0})
		}
		// handlers awaiting a callback that is never answered: every stop cause must release them
		for _, t := range [][]string{{"p"}, {"q"}} {
			add(c08P{Traffic: t, Cause: "stop", Stepped: true, Unblock: true, Push: true}, Bounds{1, 1, 0})
			add(c08P{Traffic: t, Cause: "peerclose", Stepped: true, Unblock: true, Push: true}, Bounds{1, 1, 0})
			add(c08P{Traffic: t, Cause: "stop", Unblock: false, Push: true}, Bounds{1, 2, 0})
			add(c08P{Traffic: t, Cause: "faults", Unblock: true, Push: true}, Bounds{1, 1, 1}) // the push itself may fail to be sent
		}
		return out
	}
	for _, t := range traffics {
		for _, unb := range []bool{true, false} {
			b := Bounds{2, 2, 0}
			if len(t) == 1 {
				b = Bounds{3, 3, 0}
			}
			add(c08P{Traffic: t, Cause: "stop", Unblock: unb}, b)
			add(c08P{Traffic: t, Cause: "stop", Stepped: true, Unblock: unb}, Bounds{2, 2, 0})
			add(c08P{Traffic: t, Cause: "peerclose", Unblock: unb}, Bounds{2, 2, 0})
			add(c08P{Traffic: t, Cause: "faults", Unblock: unb}, Bounds{1, 2, 1})
			add(c08P{Traffic: t, Cause: "stop+peerclose", Stepped: true, Unblock: unb}, Bounds{2, 1, 0})
			add(c08P{Traffic: t, Cause: "peerclose+stop", Stepped: true, Unblock: unb}, Bounds{2, 1, 0})
			add(c08P{Traffic: t, Cause: "stop+peerclose", Unblock: unb}, Bounds{2, 1, 0})
		}
	}
	for _, t := range [][]string{{"h", "n", "n"}, {"h", "[nn]", "c"}, {"g", "n", "c"}, {"h", "n"}, {"n", "n"}, {"g", "[nc]", "n"}} {
		for _, conc := range []int{1, 2} {
			add(c08P{Traffic: t, Cause: "basectx+stop", Stepped: true, Unblock: true, Conc: conc}, Bounds{2, 2, 0})
			add(c08P{Traffic: t, Cause: "basectx+stop", Unblock: false, Conc: conc}, Bounds{2, 1, 0})
			add(c08P{Traffic: t, Cause: "basectx+peerclose", Stepped: true, Unblock: true, Conc: conc}, Bounds{2, 2, 0})
		}
	}
	for _, t := range [][]string{{"p"}, {"q"}, {"p", "c"}} {
		for _, unb := range []bool{true, false} {
			add(c08P{Traffic: t, Cause: "stop", Unblock: unb, Push: true}, Bounds{2, 2, 0})
			add(c08P{Traffic: t, Cause: "stop", Stepped: true, Unblock: unb, Push: true}, Bounds{2, 2, 0})
			add(c08P{Traffic: t, Cause: "peerclose", Stepped: true, Unblock: unb, Push: true}, Bounds{2, 2, 0})
			add(c08P{Traffic: t, Cause: "faults", Unblock: unb, Push: true}, Bounds{1, 2, 1})
		}
	}
	for _, t := range [][]string{{"c"}, {"g"}, {"h"}, {"h", "n"}} {
		for _, post := range [][]string{{"c"}, {"n"}, {"m"}, {"y"}, {"[nc]"}, {"n", "c"}} {
			for _, st := range []bool{true, false} {
				add(c08P{Traffic: t, Post: post, Cause: "stop", Stepped: st, Unblock: false}, Bounds{2, 2, 0})
			}
		}
	}
	return out
}
