package main

import (
	"context"
	"errors"
	"fmt"
	"strings"

	"github.com/creachadair/jrpc2"
	"verif/vs"
)

// C09 — server push: Notify/Callback delivery, matching, context end, shutdown.

func init() { register("C09", c09Scenarios) }

type c09P struct {
	Push      bool
	N         int    // outside Callback threads cb0..cbN-1, each with its own context
	Cancel    bool   // a thread cancels the context of cb0 at an arbitrary moment
	Script    string // peer's answer: inorder, reverse, batch, dup, unknown, error, late, none
	ErrForm   bool   // the stray reply (duplicate / unsolicited / late) is an error object instead of a result
	PeerCall  bool   // the peer has its own gated call with id 1 in flight (callback ids also start at 1)
	NoteWaits bool   // a notification handler awaits a callback while dispatch is parked behind it
	Stop      bool   // Stop racing with the callbacks
	Notify    bool   // an outside Notify
	AfterStop bool   // Notify/Callback issued after WaitStatus returned
	HandlerCB bool   // a call handler issues a callback and returns its result
	BgCtx     bool   // the outside callbacks use context.Background() (a context that can never end)
	NoBuiltin bool   // ServerOptions.DisableBuiltin: unrelated to pushing, must change nothing
}

func (p c09P) name() string {
	var f []string
	if !p.Push {
		f = append(f, "push-disabled")
	}
	f = append(f, fmt.Sprintf("callbacks=%d script=%s", p.N, p.Script))
	if p.ErrForm {
		f = append(f, "stray-replies-are-error-objects")
	}
	for _, kv := range []struct {
		on bool
		s  string
	}{{p.Cancel, "cancel"}, {p.PeerCall, "peer-call-id-1"}, {p.NoteWaits, "notification-awaits-callback"}, {p.Stop, "stop"}, {p.Notify, "notify"}, {p.AfterStop, "after-stop"}, {p.HandlerCB, "handler-callback"}, {p.BgCtx, "background-ctx"}, {p.NoBuiltin, "builtins-disabled"}} {
		if kv.on {
			f = append(f, kv.s)
		}
	}
	return strings.Join(f, " ")
}

func c09Scenario(p c09P, b Bounds) *Scenario {
	return &Scenario{
		Name:   p.name(),
		Params: map[string]any{"p": fmt.Sprintf("%+v", p)},
		Bounds: b,
		New: func() *Instance {
			gates := NewGates()
			body := func() {
				lib, peer, _ := NewPipe(PipeOpts{Name: "srv", CloseUnblocksRecv: true})
				var srv *jrpc2.Server
				tok := 0
				hd := func(ctx context.Context, req *jrpc2.Request) (any, error) {
					tok++
					t := fmt.Sprintf("tok%d", tok)
					vs.Event("h_enter", req.Method(), req.ID(), t)
					switch {
					case strings.HasPrefix(req.Method(), "g"):
						gates.Wait(req.Method())
					case req.Method() == "nh" || req.Method() == "hc":
						// a handler that itself awaits a callback
						vs.Event("call", "Callback", "h")
						rsp, err := jrpc2.ServerFromContext(ctx).Callback(ctx, "cbh", nil)
						vs.Yield("ret")
						if err != nil {
							vs.Note("ret", "Callback", "h", "err", err.Error())
						} else {
							vs.Note("ret", "Callback", "h", "ok", rsp.ID(), rsp.ResultString())
						}
					}
					vs.Yield("h_exit")
					vs.Note("h_exit", req.Method(), req.ID(), t, ctxErrStr(ctx))
					return t, nil
				}
				srv = jrpc2.NewServer(anyAssigner{hd}, &jrpc2.ServerOptions{Concurrency: 3, AllowPush: p.Push, DisableBuiltin: p.NoBuiltin})
				srv.Start(lib)
				var j Join
				ctxs := make([]context.Context, p.N)
				cancels := make([]context.CancelFunc, p.N)
				for k := 0; k < p.N; k++ {
					ctxs[k], cancels[k] = cancelCauseCtx()
					if p.BgCtx {
						ctxs[k] = context.Background()
					}
				}
				for k := 0; k < p.N; k++ {
					k := k
					j.Go(fmt.Sprintf("cb%d", k), func() {
						vs.Event("call", "Callback", fmt.Sprint(k))
						rsp, err := srv.Callback(ctxs[k], fmt.Sprintf("cb%d", k), nil)
						vs.Yield("ret")
						if err != nil {
							kind := "err"
							var je *jrpc2.Error
							if errors.As(err, &je) {
								kind = "jerr"
							}
							vs.Note("ret", "Callback", fmt.Sprint(k), kind, err.Error())
						} else {
							vs.Note("ret", "Callback", fmt.Sprint(k), "ok", rsp.ID(), rsp.ResultString())
						}
					})
				}
				if p.Cancel {
					j.Go("cancel", func() {
						vs.Yield("cancel")
						cancels[0]()
						vs.Note("env", "cancel", "0")
					})
				}
				if p.Notify {
					j.Go("notify", func() {
						err := srv.Notify(context.Background(), "pushed\x01\a\v\x7f\U000e0001\u2028", []int{1})
						vs.Yield("ret")
						vs.Note("ret", "Notify", errStr(err))
					})
				}
				if p.Stop {
					j.Go("stop", func() {
						vs.Event("call", "Stop")
						srv.Stop()
						vs.Event("ret", "Stop")
					})
				}
				expect := p.N
				if !p.Push {
					expect = 0
				}
				vs.GoNamed("peer", func() {
					if p.PeerCall {
						peer.Send([]byte(`{"jsonrpc":"2.0","id":1,"method":"g0"}`))
					}
					if p.NoteWaits && p.Push {
						peer.Send([]byte(`{"jsonrpc":"2.0","method":"nh"}`))
						peer.Send([]byte(`{"jsonrpc":"2.0","id":7,"method":"after"}`))
						expect++
					}
					if p.HandlerCB && p.Push {
						peer.Send([]byte(`{"jsonrpc":"2.0","id":8,"method":"hc"}`))
						expect++
					}
					type cbreq struct{ method, id string }
					var pend []cbreq
					closed := false
					for len(pend) < expect && !closed {
						rec, ok := peer.Recv()
						if !ok {
							closed = true
							break
						}
						ms, _, _ := parseRecord(rec)
						for _, m := range ms {
							if m.Has("method") && m.Has("id") {
								var meth string
								fmt.Sscanf(m.Str("method"), "%q", &meth)
								pend = append(pend, cbreq{meth, m.ID()})
								vs.Note("peer-saw", meth, m.ID())
							}
						}
					}
					reply := func(c cbreq) string {
						return fmt.Sprintf(`{"jsonrpc":"2.0","id":%s,"result":"r:%s:%s"}`, c.id, c.method, c.id)
					}
					send := func(s string) {
						if peer.Send([]byte(s)) {
							vs.Note("peer-sent", s)
						}
					}
					switch p.Script {
					case "inorder":
						for _, c := range pend {
							send(reply(c))
						}
					case "reverse":
						for i := len(pend) - 1; i >= 0; i-- {
							send(reply(pend[i]))
						}
					case "batch":
						var parts []string
						for _, c := range pend {
							parts = append(parts, reply(c))
						}
						if len(parts) > 0 {
							send("[" + strings.Join(parts, ",") + "]")
						}
					case "dup":
						for _, c := range pend {
							send(reply(c))
							if p.ErrForm {
								send(fmt.Sprintf(`{"jsonrpc":"2.0","id":%s,"error":{"code":-7,"message":"DUPLICATE"}}`, c.id))
							} else {
								send(fmt.Sprintf(`{"jsonrpc":"2.0","id":%s,"result":"DUPLICATE"}`, c.id))
							}
						}
					case "unknown":
						if p.ErrForm {
							send(`{"jsonrpc":"2.0","id":99,"error":{"code":-7,"message":"UNSOLICITED"}}`)
						} else {
							send(`{"jsonrpc":"2.0","id":99,"result":"UNSOLICITED"}`)
						}
						for _, c := range pend {
							send(reply(c))
						}
					case "error":
						for _, c := range pend {
							send(fmt.Sprintf(`{"jsonrpc":"2.0","id":%s,"error":{"code":-5,"message":"e:%s"}}`, c.id, c.method))
						}
					case "late":
						// answer only after the callbacks have returned (their contexts ended / server stopped)
						vs.AwaitQuiescence()
						vs.Note("quiet", "before-late")
						for _, c := range pend {
							if p.ErrForm {
								send(fmt.Sprintf(`{"jsonrpc":"2.0","id":%s,"error":{"code":-7,"message":"LATE"}}`, c.id))
							} else {
								send(reply(c))
							}
						}
					case "none":
					}
					vs.AwaitQuiescence()
					vs.Note("quiet", "end")
					// release whatever is still waiting so that the scenario can finish
					for k := range cancels {
						cancels[k]()
					}
					gates.Open("g0")
					vs.AwaitQuiescence()
					peer.Close()
				})
				j.Wait()
				st := srv.WaitStatus()
				vs.Note("status", fmt.Sprintf("stopped=%v closed=%v err=%v", st.Stopped, st.Closed, st.Err))
				if p.AfterStop {
					err := srv.Notify(context.Background(), "late", nil)
					vs.Note("after-stop", "Notify", errStr(err), fmt.Sprint(errors.Is(err, jrpc2.ErrConnClosed)))
					_, err = srv.Callback(context.Background(), "late", nil)
					vs.Note("after-stop", "Callback", errStr(err), fmt.Sprint(errors.Is(err, jrpc2.ErrConnClosed)))
				}
			}
			check := func(x *vs.Exec) []Viol { return c09Check(p, x) }
			return &Instance{Body: body, Check: check}
		},
	}
}

func c09Check(p c09P, x *vs.Exec) []Viol {
	v := genericRules(x, nil)
	if x.Outcome != "ok" {
		return v
	}
	// what the peer sent, by callback id
	sentFor := map[string][]int{} // id -> log indices of peer-sent replies
	sentRaw := map[int]string{}
	for i, e := range x.Log {
		if e.K == "peer-sent" {
			ms, _, _ := parseRecord([]byte(e.Arg(0)))
			for _, m := range ms {
				sentFor[m.ID()] = append(sentFor[m.ID()], i)
			}
			sentRaw[i] = e.Arg(0)
		}
	}
	sawMethod := map[string]string{} // method -> id as seen by the peer
	idCount := map[string]int{}
	for _, e := range x.Log {
		if e.K == "peer-saw" {
			sawMethod[e.Arg(0)] = e.Arg(1)
			idCount[e.Arg(1)]++
		}
	}
	for id, n := range idCount {
		Hit("C09.R3")
		if n > 1 {
			v = append(v, Viol{"C09.R3", fmt.Sprintf("callback id %s used by %d outstanding callbacks", id, n)})
		}
	}
	stopAt := findEv(x, 0, "call", "Stop")
	// every Callback returns exactly once, admissibly
	names := []string{}
	for k := 0; k < p.N; k++ {
		names = append(names, fmt.Sprint(k))
	}
	if (p.NoteWaits || p.HandlerCB) && p.Push {
		names = append(names, "h")
	}
	for _, k := range names {
		calls, rets := 0, 0
		retAt := -1
		var ret vs.Ev
		for i, e := range x.Log {
			if e.K == "call" && e.Arg(0) == "Callback" && e.Arg(1) == k {
				calls++
			}
			if e.K == "ret" && e.Arg(0) == "Callback" && e.Arg(1) == k {
				rets++
				retAt = i
				ret = e
			}
		}
		if calls == 0 {
			continue
		}
		Hit("C09.R4")
		if rets != 1 {
			v = append(v, Viol{"C09.R4", fmt.Sprintf("Callback %s returned %d times", k, rets)})
			continue
		}
		method := "cb" + k
		if !p.Push {
			Hit("C09.R1")
			if ret.Arg(2) != "err" || ret.Arg(3) != jrpc2.ErrPushUnsupported.Error() {
				v = append(v, Viol{"C09.R1", "push disabled but Callback returned " + ret.String()})
			}
			continue
		}
		id := sawMethod[method]
		switch ret.Arg(2) {
		case "ok":
			want := fmt.Sprintf(`"r:%s:%s"`, method, ret.Arg(3))
			Hit("C09.R5")
			if ret.Arg(4) != want || ret.Arg(3) != id {
				v = append(v, Viol{"C09.R5", fmt.Sprintf("Callback %s (id %s) returned id %s payload %s: not the reply bearing its id", k, id, ret.Arg(3), ret.Arg(4))})
			}
			ok := false
			for _, at := range sentFor[id] {
				if at < retAt {
					ok = true
				}
			}
			if !ok {
				v = append(v, Viol{"C09.R4", fmt.Sprintf("Callback %s returned a reply before the peer had sent one", k)})
			}
		case "jerr":
			if p.Script != "error" || !strings.Contains(ret.Arg(3), "e:"+method) {
				v = append(v, Viol{"C09.R4", fmt.Sprintf("Callback %s returned an *Error the peer did not send: %s", k, ret.Arg(3))})
			}
		case "err":
			msg := ret.Arg(3)
			switch {
			case msg == context.Canceled.Error():
				cAt := findEv(x, 0, "env", "cancel", k)
				qEnd := findEv(x, 0, "quiet", "end")
				if !((cAt >= 0 && cAt < retAt) || (qEnd >= 0 && qEnd < retAt) || (stopAt >= 0 && stopAt < retAt)) {
					v = append(v, Viol{"C09.R4", fmt.Sprintf("Callback %s returned context.Canceled although its context had not ended", k)})
				}
			case msg == jrpc2.ErrConnClosed.Error():
				if stopAt < 0 || stopAt > retAt {
					if findEv(x, 0, "closed", "srv") < 0 {
						v = append(v, Viol{"C09.R2", fmt.Sprintf("Callback %s returned ErrConnClosed while the connection was up", k)})
					}
				}
			default:
				if stopAt < 0 || stopAt > retAt {
					v = append(v, Viol{"C09.R4", fmt.Sprintf("Callback %s failed with %q without a cause", k, msg)})
				}
			}
		}
	}
	// Notify
	if p.Notify {
		r := findEv(x, 0, "ret", "Notify")
		if r < 0 {
			v = append(v, Viol{"C09.R3", "Notify did not return"})
		} else if !p.Push {
			Hit("C09.R1")
			if x.Log[r].Arg(1) != jrpc2.ErrPushUnsupported.Error() {
				v = append(v, Viol{"C09.R1", "push disabled but Notify returned " + x.Log[r].Arg(1)})
			}
		}
	}
	// what the server emitted: pushes, answers to the peer's own calls, and nothing else
	ownCalls := map[string]int{}
	if p.PeerCall {
		ownCalls["1"] = 0
	}
	if p.NoteWaits && p.Push {
		ownCalls["7"] = 0
	}
	if p.HandlerCB && p.Push {
		ownCalls["8"] = 0
	}
	notes := 0
	for _, o := range outEvents(x, "srv") {
		ms, _, err := parseRecord([]byte(o.Raw))
		if err != nil {
			v = append(v, Viol{"C09.R3", "unparsable output " + o.Raw})
			continue
		}
		for _, m := range ms {
			if m.Has("method") {
				if !p.Push {
					v = append(v, Viol{"C09.R1", "push disabled but the server transmitted " + string(m.Raw)})
				}
				if !m.Has("id") {
					notes++
				}
				continue
			}
			// a response
			if n, mine := ownCalls[m.ID()]; mine && (m.Has("result") || p.Stop) && n == 0 {
				ownCalls[m.ID()] = 1
				continue
			}
			Hit("C09.R6")
			rule := "C09.R6"
			if _, mine := ownCalls[m.ID()]; mine {
				rule = "C09.R7"
			}
			v = append(v, Viol{rule, "the server answered a reply-shaped message (late, duplicate or unsolicited callback reply) with " + stripData(string(m.Raw))})
		}
	}
	Hit("C09.R6")
	for id, n := range ownCalls {
		Hit("C09.R7")
		if n != 1 && !p.Stop {
			v = append(v, Viol{"C09.R7", fmt.Sprintf("the peer's own call %s did not receive exactly its real answer", id)})
		}
	}
	if p.Notify && p.Push && !p.Stop {
		Hit("C09.R3")
		if notes != 1 {
			v = append(v, Viol{"C09.R3", fmt.Sprintf("Notify transmitted %d id-less requests", notes)})
		}
	}
	if p.AfterStop {
		for _, e := range x.Log {
			if e.K == "after-stop" {
				Hit("C09.R2")
				want := "true"
				if !p.Push {
					want = "false"
				}
				if e.Arg(2) != want {
					v = append(v, Viol{"C09.R2", fmt.Sprintf("%s after the connection ended returned %s", e.Arg(0), e.Arg(1))})
				}
			}
		}
	}
	if p.NoteWaits && p.Push && !p.Stop {
		Hit("C09.R8")
		if findEv(x, 0, "h_exit", "after") < 0 {
			v = append(v, Viol{"C09.R8", "the call behind a notification handler that awaits a callback never ran"})
		}
	}
	return v
}

// stripData shortens error objects for stable messages.
func stripData(s string) string {
	if i := strings.Index(s, `,"data"`); i > 0 {
		if j := strings.LastIndex(s, "}}"); j > i {
			return s[:i] + s[j:]
		}
	}
	return s
}

// c09Reissue: callback A's context ends before the peer answers; only then callback B is issued;
// the peer answers A late, and before it answers B. B must get its own reply.
func c09Reissue(thenStop bool, b Bounds) *Scenario {
	name := "reissue: callback A times out, callback B issued afterwards, late reply to A arrives before the reply to B"
	return &Scenario{
		Name:   name,
		Params: map[string]any{"history": []string{"Callback A", "cancel A", "A returns", "Callback B", "late reply to A", "reply to B"}},
		Bounds: b,
		New: func() *Instance {
			body := func() {
				lib, peer, _ := NewPipe(PipeOpts{Name: "srv", CloseUnblocksRecv: true})
				srv := jrpc2.NewServer(anyAssigner{func(context.Context, *jrpc2.Request) (any, error) { return 1, nil }}, &jrpc2.ServerOptions{AllowPush: true})
				srv.Start(lib)
				ctxA, cancelA := cancelCauseCtx()
				var j Join
				j.Go("caller", func() {
					for k, ctx := range []context.Context{ctxA, context.Background()} {
						vs.Event("call", "Callback", fmt.Sprint(k))
						rsp, err := srv.Callback(ctx, fmt.Sprintf("cb%d", k), nil)
						vs.Yield("ret")
						if err != nil {
							vs.Note("ret", "Callback", fmt.Sprint(k), "err", err.Error())
						} else {
							vs.Note("ret", "Callback", fmt.Sprint(k), "ok", rsp.ID(), rsp.ResultString())
						}
					}
				})
				j.Go("cancel", func() { vs.Event("env", "cancel", "0"); cancelA() })
				vs.GoNamed("peer", func() {
					ids := map[string]string{}
					for len(ids) < 2 {
						rec, ok := peer.Recv()
						if !ok {
							return
						}
						ms, _, _ := parseRecord(rec)
						for _, m := range ms {
							if m.Has("method") && m.Has("id") {
								var meth string
								fmt.Sscanf(m.Str("method"), "%q", &meth)
								ids[meth] = m.ID()
								vs.Note("peer-saw", meth, m.ID())
							}
						}
					}
					for _, meth := range []string{"cb0", "cb1"} {
						s := fmt.Sprintf(`{"jsonrpc":"2.0","id":%s,"result":"r:%s:%s"}`, ids[meth], meth, ids[meth])
						if peer.Send([]byte(s)) {
							vs.Note("peer-sent", s)
						}
					}
					vs.AwaitQuiescence()
					peer.Close()
				})
				j.Wait()
				srv.WaitStatus()
			}
			check := func(x *vs.Exec) []Viol {
				v := genericRules(x, nil)
				if x.Outcome != "ok" {
					return v
				}
				r0, r1 := findEv(x, 0, "ret", "Callback", "0"), findEv(x, 0, "ret", "Callback", "1")
				if r0 < 0 || r1 < 0 {
					return append(v, Viol{"C09.R4", "a Callback did not return"})
				}
				Hit("C09.R5")
				e := x.Log[r1]
				idB := ""
				for _, ev := range x.Log {
					if ev.K == "peer-saw" && ev.Arg(0) == "cb1" {
						idB = ev.Arg(1)
					}
				}
				if e.Arg(2) != "ok" || e.Arg(4) != fmt.Sprintf(`"r:cb1:%s"`, idB) {
					v = append(v, Viol{"C09.R5", fmt.Sprintf("callback B (id %s) returned %s %s %s: a late reply to an earlier callback must complete nothing", idB, e.Arg(2), e.Arg(3), e.Arg(4))})
				}
				for _, o := range outEvents(x, "srv") {
					ms, _, _ := parseRecord([]byte(o.Raw))
					for _, m := range ms {
						if !m.Has("method") {
							Hit("C09.R6")
							v = append(v, Viol{"C09.R6", "the server answered a late reply with " + stripData(string(m.Raw))})
						}
					}
				}
				return v
			}
			return &Instance{Body: body, Check: check}
		},
	}
}

// c09Restart: a callback posted from outside any handler is still unanswered when the server is
// stopped, waited for and started again on a fresh channel (which WaitStatus documents as allowed).
// The old callback must return (with an error); a callback on the new connection gets its own reply.
func c09Restart(n int, b Bounds) *Scenario {
	return &Scenario{
		Name:   fmt.Sprintf("restart with %d unanswered callback(s) pending: Stop, Wait, Start again, new callback", n),
		Params: map[string]any{"pending_callbacks": n, "history": []string{"Callback A... (unanswered)", "Stop", "Wait", "Start(new channel)", "Callback B", "reply to B"}},
		Bounds: b,
		New: func() *Instance {
			body := func() {
				lib, peer, _ := NewPipe(PipeOpts{Name: "srv", CloseUnblocksRecv: true})
				srv := jrpc2.NewServer(anyAssigner{func(context.Context, *jrpc2.Request) (any, error) { return 1, nil }}, &jrpc2.ServerOptions{AllowPush: true})
				srv.Start(lib)
				var j Join
				seen := 0
				vs.GoNamed("peer", func() {
					for {
						if _, ok := peer.Recv(); !ok {
							return
						}
						seen++
					}
				})
				for k := 0; k < n; k++ {
					k := k
					j.Go(fmt.Sprintf("old%d", k), func() {
						vs.Event("call", "Callback", fmt.Sprint("old", k))
						rsp, err := srv.Callback(context.Background(), fmt.Sprintf("old%d", k), nil)
						vs.Yield("ret")
						if err != nil {
							vs.Note("ret", "Callback", fmt.Sprint("old", k), "err", err.Error())
						} else {
							vs.Note("ret", "Callback", fmt.Sprint("old", k), "ok", rsp.ResultString())
						}
					})
				}
				vs.Await(func() bool { return seen == n }, "callbacks on the wire")
				srv.Stop()
				srv.Wait()
				lib2, peer2, _ := NewPipe(PipeOpts{Name: "srv2", CloseUnblocksRecv: true})
				srv.Start(lib2)
				vs.GoNamed("peer2", func() {
					rec, ok := peer2.Recv()
					if ok {
						ms, _, _ := parseRecord(rec)
						for _, m := range ms {
							if m.Has("method") && m.Has("id") {
								peer2.Send([]byte(fmt.Sprintf(`{"jsonrpc":"2.0","id":%s,"result":"r:new"}`, m.ID())))
							}
						}
					}
					vs.AwaitQuiescence()
					peer2.Close()
				})
				j.Go("new", func() {
					vs.Event("call", "Callback", "new")
					rsp, err := srv.Callback(context.Background(), "new", nil)
					vs.Yield("ret")
					if err != nil {
						vs.Note("ret", "Callback", "new", "err", err.Error())
					} else {
						vs.Note("ret", "Callback", "new", "ok", rsp.ResultString())
					}
				})
				j.Wait()
				srv.WaitStatus()
			}
			check := func(x *vs.Exec) []Viol {
				v := genericRules(x, nil)
				if x.Outcome != "ok" {
					return v
				}
				Hit("C09.R4")
				for k := 0; k < n; k++ {
					i := findEv(x, 0, "ret", "Callback", fmt.Sprint("old", k))
					if i < 0 {
						v = append(v, Viol{"C09.R4", fmt.Sprintf("callback old%d pending at Stop never returned", k)})
					} else if x.Log[i].Arg(2) != "err" {
						v = append(v, Viol{"C09.R4", fmt.Sprintf("callback old%d, never answered, returned %s", k, x.Log[i].Arg(3))})
					}
				}
				i := findEv(x, 0, "ret", "Callback", "new")
				if i < 0 {
					v = append(v, Viol{"C09.R4", "the callback on the new connection did not return"})
				} else if x.Log[i].Arg(2) != "ok" || x.Log[i].Arg(3) != `"r:new"` {
					v = append(v, Viol{"C09.R5", fmt.Sprintf("the callback on the new connection returned %s %s, its peer sent \"r:new\"", x.Log[i].Arg(2), x.Log[i].Arg(3))})
				}
				return v
			}
			return &Instance{Body: body, Check: check}
		},
	}
}

// c09SendFault: the Send of callback A fails (the connection survives); callback B is issued afterwards;
// A's context ends before the peer answers B. B still gets its own reply, and its id differs from A's
// as long as A is registered.
func c09SendFault(b Bounds) *Scenario {
	return &Scenario{
		Name:   "callback A's Send fails, callback B issued, A's context ends, then the reply to B",
		Params: map[string]any{"history": []string{"Callback A (Send fails)", "Callback B", "A's context ends", "reply to B"}},
		Bounds: b,
		New: func() *Instance {
			body := func() {
				lib, peer, pipe := NewPipe(PipeOpts{Name: "srv", CloseUnblocksRecv: true})
				srv := jrpc2.NewServer(anyAssigner{func(context.Context, *jrpc2.Request) (any, error) { return 1, nil }}, &jrpc2.ServerOptions{AllowPush: true})
				srv.Start(lib)
				ctxA, cancelA := cancelCauseCtx()
				pipe.FailSend = errFault
				_, errA := srv.Callback(ctxA, "cbA", nil)
				vs.Note("ret", "Callback", "A", errStr(errA))
				var j Join
				j.Go("B", func() {
					rsp, err := srv.Callback(context.Background(), "cbB", nil)
					vs.Yield("ret")
					if err != nil {
						vs.Note("ret", "Callback", "B", "err", err.Error())
					} else {
						vs.Note("ret", "Callback", "B", "ok", rsp.ResultString())
					}
				})
				idB := ""
				for idB == "" {
					rec, ok := peer.Recv()
					if !ok {
						break
					}
					ms, _, _ := parseRecord(rec)
					for _, m := range ms {
						if m.Str("method") == `"cbB"` {
							idB = m.ID()
						}
					}
				}
				vs.Note("id-B", idB)
				cancelA()
				vs.AwaitQuiescence()
				peer.Send([]byte(fmt.Sprintf(`{"jsonrpc":"2.0","id":%s,"result":"r:B"}`, idB)))
				vs.AwaitQuiescence()
				peer.Close()
				j.Wait()
				srv.WaitStatus()
			}
			check := func(x *vs.Exec) []Viol {
				v := genericRules(x, nil)
				if x.Outcome != "ok" {
					return v
				}
				Hit("C09.R5")
				i := findEv(x, 0, "ret", "Callback", "B")
				if i < 0 {
					return append(v, Viol{"C09.R4", "callback B did not return"})
				}
				if e := x.Log[i]; e.Arg(2) != "ok" || e.Arg(3) != `"r:B"` {
					v = append(v, Viol{"C09.R5", fmt.Sprintf("callback B returned %s %s although the peer replied \"r:B\" to its id and only A's context had ended", e.Arg(2), e.Arg(3))})
				}
				// ids: A's request was handed to Send (and failed) with some id; B must not share it while A is registered
				idA := ""
				for _, o := range outEvents(x, "srv") {
					ms, _, _ := parseRecord([]byte(o.Raw))
					for _, m := range ms {
						if m.Str("method") == `"cbA"` {
							idA = m.ID()
						}
					}
				}
				if k := findEv(x, 0, "id-B"); k >= 0 && idA != "" && x.Log[k].Arg(0) == idA {
					v = append(v, Viol{"C09.R3", "callback B was given the id " + idA + " of callback A, which is still outstanding (its context had not ended)"})
				}
				return v
			}
			return &Instance{Body: body, Check: check}
		},
	}
}

// c09Many: n callbacks one after the other on one server (and an outside Notify between them): every
// one transmits one valid request whose id no earlier callback had, and returns the reply bearing it.
func c09Many(n int) *Scenario {
	return &Scenario{
		Name:   fmt.Sprintf("%d callbacks in sequence on one server", n),
		Params: map[string]any{"callbacks": n},
		Bounds: Bounds{0, 0, 0},
		New: func() *Instance {
			body := func() {
				lib, peer, _ := NewPipe(PipeOpts{Name: "srv", CloseUnblocksRecv: true})
				srv := jrpc2.NewServer(anyAssigner{func(context.Context, *jrpc2.Request) (any, error) { return 1, nil }}, &jrpc2.ServerOptions{AllowPush: true})
				srv.Start(lib)
				vs.GoNamed("peer", func() {
					for {
						rec, ok := peer.Recv()
						if !ok {
							return
						}
						ms, _, err := parseRecord(rec)
						if err != nil {
							vs.Note("many-viol", "the server transmitted a record that is not valid JSON: "+string(rec))
							continue
						}
						for _, m := range ms {
							if m.Has("method") && m.Has("id") {
								peer.Send([]byte(fmt.Sprintf(`{"jsonrpc":"2.0","id":%s,"result":"r:%s"}`, m.ID(), m.ID())))
							}
						}
					}
				})
				seen := map[string]bool{}
				for k := 0; k < n; k++ {
					ctx, cancel := cancelCauseCtx()
					vs.GoNamed("unstick", func() { vs.AwaitQuiescence(); cancel() })
					rsp, err := srv.Callback(ctx, fmt.Sprintf("cb%d", k), nil)
					cancel()
					switch {
					case err != nil:
						vs.Note("many-viol", fmt.Sprintf("callback %d of %d did not return its reply: %v", k+1, n, err))
					case seen[rsp.ID()] || rsp.ResultString() != fmt.Sprintf("%q", "r:"+rsp.ID()):
						vs.Note("many-viol", fmt.Sprintf("callback %d of %d returned id %s result %s: not a fresh id with the reply bearing it", k+1, n, rsp.ID(), rsp.ResultString()))
					}
					if err == nil {
						seen[rsp.ID()] = true
					}
					if k == n/2 {
						srv.Notify(context.Background(), "between", nil)
					}
					vs.AwaitQuiescence()
				}
				peer.Close()
				srv.WaitStatus()
			}
			return &Instance{Body: body, Check: func(x *vs.Exec) []Viol {
				v := genericRules(x, nil)
				Hit("C09.R5")
				for _, e := range x.Log {
					if e.K == "many-viol" {
						v = append(v, Viol{"C09.R5", e.Arg(0)})
					}
				}
				return v
			}}
		},
	}
}

func c09Scenarios(tier string) []*Scenario {
	var out []*Scenario
	add := func(p c09P, b Bounds) { out = append(out, c09Scenario(p, b)) }
	q := tier == "quick"
	b1, b2 := Bounds{2, 2, 0}, Bounds{1, 2, 0}
	if !q {
		b1, b2 = Bounds{3, 2, 1}, Bounds{2, 2, 1}
	}
	for _, s := range []string{"inorder", "dup", "unknown", "error", "none"} {
		add(c09P{Push: true, N: 1, Script: s}, b1)
	}
	if q {
		add(c09P{Push: true, N: 1, Script: "inorder", PeerCall: true}, Bounds{1, 1, 1}) // with one environment deviation
	}
	for _, s := range []string{"inorder", "reverse", "batch", "dup"} {
		add(c09P{Push: true, N: 2, Script: s}, b2)
	}
	add(c09P{Push: true, N: 1, Script: "inorder", Cancel: true}, b1)
	add(c09P{Push: true, N: 1, Script: "late", Cancel: true}, b2)
	add(c09P{Push: true, N: 1, Script: "late", Cancel: true, PeerCall: true}, b2)
	add(c09P{Push: true, N: 1, Script: "dup", PeerCall: true}, b2)
	add(c09P{Push: true, N: 1, Script: "dup", ErrForm: true}, b2)
	add(c09P{Push: true, N: 1, Script: "unknown", ErrForm: true}, b2)
	add(c09P{Push: true, N: 1, Script: "late", Cancel: true, ErrForm: true}, b2)
	add(c09P{Push: true, N: 1, Script: "late", Cancel: true, PeerCall: true, ErrForm: true}, b2)
	add(c09P{Push: true, N: 0, Script: "inorder", NoteWaits: true}, b1)
	add(c09P{Push: true, N: 0, Script: "inorder", HandlerCB: true}, b1)
	add(c09P{Push: true, N: 1, Script: "inorder", Stop: true, AfterStop: true}, b2)
	add(c09P{Push: true, N: 1, Script: "none", Stop: true}, b1)
	add(c09P{Push: true, N: 1, Script: "none", Stop: true, BgCtx: true}, b1)
	add(c09P{Push: true, N: 1, Script: "inorder", BgCtx: true}, b1)
	add(c09P{Push: true, N: 0, Script: "none", NoteWaits: true, Stop: true}, b2)
	add(c09P{Push: true, N: 0, Script: "none", HandlerCB: true, Stop: true}, b2)
	add(c09P{Push: true, N: 1, Script: "inorder", Notify: true}, b2)
	add(c09P{Push: true, N: 1, Script: "dup", NoBuiltin: true}, b1)
	add(c09P{Push: true, N: 1, Script: "unknown", ErrForm: true, NoBuiltin: true}, b1)
	add(c09P{Push: true, N: 1, Script: "late", Cancel: true, NoBuiltin: true}, b1)
	add(c09P{Push: false, N: 1, Script: "none", NoBuiltin: true}, b1)
	out = append(out, c09Many(13))
	out = append(out, c09Reissue(false, b1), c09Restart(1, b2), c09SendFault(b2))
	add(c09P{Push: true, N: 0, Script: "none", Notify: true, AfterStop: true}, b1)
	add(c09P{Push: false, N: 1, Script: "none", Notify: true, AfterStop: true}, b1)
	if !q {
		out = append(out, c09Restart(2, Bounds{2, 2, 0}))
		add(c09P{Push: true, N: 3, Script: "reverse"}, Bounds{1, 1, 0})
		add(c09P{Push: true, N: 2, Script: "late", Cancel: true, PeerCall: true}, Bounds{2, 2, 0})
		add(c09P{Push: true, N: 1, Script: "inorder", NoteWaits: true, Cancel: true}, Bounds{2, 2, 0})
		add(c09P{Push: true, N: 2, Script: "inorder", Stop: true}, Bounds{2, 2, 0})
		add(c09P{Push: true, N: 1, Script: "dup", NoteWaits: true}, Bounds{2, 2, 0})
	}
	return out
}
