package main

import (
	"context"
	"fmt"
	"io"
	"net"
	"strings"

	"github.com/creachadair/jrpc2/channel"

	"github.com/creachadair/jrpc2"
	"verif/vs"
)

// C10 — channel discipline: one sender, one receiver, one Close, whole messages.
// The Pipe's monitor adds a scheduling point inside Send, Recv and Close, so calls
// that the library does not mutually exclude can be observed overlapping.

func init() { register("C10", c10Scenarios) }

// disciplineRules judges the monitor's observations of one pipe.
func disciplineRules(x *vs.Exec, name string, wantClose int) []Viol {
	var v []Viol
	closes := 0
	for _, e := range x.Log {
		switch {
		case e.K == "overlap" && e.Arg(0) == name:
			switch e.Arg(1) {
			case "send/send":
				v = append(v, Viol{"C10.R1", "two Send calls in progress at once on " + name})
			case "recv/recv":
				v = append(v, Viol{"C10.R2", "two Recv calls in progress at once on " + name})
			case "send/close":
				v = append(v, Viol{"C10.R3", "Send overlaps Close on " + name})
			}
		case e.K == "closed" && e.Arg(0) == name:
			closes++
		case e.K == "out" && e.Arg(0) == name:
			Hit("C10.R5")
			ms, _, err := parseRecord([]byte(e.Arg(1)))
			if err != nil || len(ms) == 0 {
				v = append(v, Viol{"C10.R5", "record passed to Send is not a JSON object or non-empty array of objects: " + e.Arg(1)})
			}
		}
	}
	Hit("C10.R1")
	Hit("C10.R2")
	Hit("C10.R3")
	if x.Outcome == "ok" && wantClose >= 0 {
		Hit("C10.R4")
		if closes != wantClose {
			v = append(v, Viol{"C10.R4", fmt.Sprintf("Close called %d times on %s (want exactly %d)", closes, name, wantClose)})
		}
	}
	return v
}

type c10P struct {
	Traffic  []string
	Notify   bool
	Callback bool
	Stop     bool
	Restart  bool
	RecvErr  string // the connection ends by a Recv error of this kind instead of the peer hanging up
}

// recvErrOf builds the error a transport might report from Recv.
func recvErrOf(kind string) error {
	switch kind {
	case "net.ErrClosed":
		return fmt.Errorf("read tcp 127.0.0.1:1: %w", net.ErrClosed)
	case "channel.ErrClosed":
		return fmt.Errorf("recv: %w", channel.ErrClosed)
	case "io.ErrUnexpectedEOF":
		return io.ErrUnexpectedEOF
	case "io.ErrClosedPipe":
		return io.ErrClosedPipe
	}
	return errFault
}

func c10Server(p c10P, b Bounds) *Scenario {
	var f []string
	f = append(f, "server traffic{"+tokensName(p.Traffic)+"}")
	if p.Notify {
		f = append(f, "notify")
	}
	if p.Callback {
		f = append(f, "callback")
	}
	if p.Stop {
		f = append(f, "stop")
	}
	if p.Restart {
		f = append(f, "restart")
	}
	if p.RecvErr != "" {
		f = append(f, "recv-error="+p.RecvErr)
	}
	return &Scenario{
		Name:   strings.Join(f, " "),
		Params: map[string]any{"traffic": p.Traffic, "notify": p.Notify, "callback": p.Callback, "stop": p.Stop, "restart": p.Restart},
		Bounds: b,
		New: func() *Instance {
			msgs := tokenJSON(p.Traffic)
			h := &seqHarness{msgs: msgs, gates: NewGates()}
			body := func() {
				lib, peer, pipe := NewPipe(PipeOpts{Name: "srv", CloseUnblocksRecv: true, Monitor: true})
				srv := jrpc2.NewServer(anyAssigner{h.handler()}, &jrpc2.ServerOptions{Concurrency: 2, AllowPush: true})
				srv.Start(lib)
				var j Join
				j.Go("traffic", func() {
					for _, m := range msgs {
						peer.Send([]byte(m.JSON))
					}
				})
				j.Go("peer-reader", func() {
					for {
						rec, ok := peer.Recv()
						if !ok {
							return
						}
						ms, _, _ := parseRecord(rec)
						for _, m := range ms {
							if m.Has("method") && m.Has("id") {
								peer.Send([]byte(fmt.Sprintf(`{"jsonrpc":"2.0","id":%s,"result":1}`, m.ID())))
							}
						}
					}
				})
				if p.Notify {
					j.Go("notify", func() { srv.Notify(context.Background(), "pushed\x01\a\x7f\U000e0001", nil) })
				}
				if p.Callback {
					j.Go("callback", func() { srv.Callback(context.Background(), "cb\x01\v\x7f", nil) })
				}
				if p.Stop {
					j.Go("stop", func() { srv.Stop() })
				}
				vs.GoNamed("closer", func() {
					vs.AwaitQuiescence()
					if p.RecvErr != "" {
						pipe.FailRecv = recvErrOf(p.RecvErr)
						vs.AwaitQuiescence()
					}
					peer.Close()
				})
				srv.WaitStatus()
				j.Wait()
				if p.Restart {
					lib2, peer2, _ := NewPipe(PipeOpts{Name: "srv2", CloseUnblocksRecv: true, Monitor: true})
					srv.Start(lib2)
					peer2.Send([]byte(`{"jsonrpc":"2.0","id":99,"method":"c9_9"}`))
					peer2.Recv()
					peer2.Close()
					srv.WaitStatus()
				}
			}
			check := func(x *vs.Exec) []Viol {
				v := genericRules(x, nil)
				v = append(v, disciplineRules(x, "srv", 1)...)
				if p.Restart {
					v = append(v, disciplineRules(x, "srv2", 1)...)
				}
				return v
			}
			return &Instance{Body: body, Check: check}
		},
	}
}

// c10ServerUnencodable: replies that cannot be encoded (error data that is not JSON), alone and inside
// batches, notification-only messages and an empty client batch: whatever is handed to Send must be
// one whole message (never an empty record, an empty array or a torn array), and the server goes on.
func c10ServerUnencodable() *Scenario {
	msgs := []string{
		`{"jsonrpc":"2.0","id":1,"method":"bad"}`,
		`[{"jsonrpc":"2.0","id":2,"method":"ok"},{"jsonrpc":"2.0","id":3,"method":"bad"}]`,
		`[{"jsonrpc":"2.0","id":4,"method":"bad"}]`,
		`[{"jsonrpc":"2.0","id":5,"method":"bad"},{"jsonrpc":"2.0","id":6,"method":"ok"},{"jsonrpc":"2.0","id":7,"method":"ok"}]`,
		`{"jsonrpc":"2.0","method":"ok"}`,
		`[{"jsonrpc":"2.0","method":"ok"},{"jsonrpc":"2.0","method":"bad"}]`,
		`{"jsonrpc":"2.0","method":"bad"}`,
		`{"jsonrpc":"2.0","id":8,"method":"badresult"}`,
	}
	return &Scenario{
		Name:   "server: replies that cannot be encoded (alone, in batches), notification-only messages; client: empty batch",
		Params: map[string]any{"messages": msgs},
		Bounds: Bounds{0, 0, 0},
		New: func() *Instance {
			body := func() {
				lib, peer, _ := NewPipe(PipeOpts{Name: "srv", CloseUnblocksRecv: true, Monitor: true})
				hd := func(ctx context.Context, req *jrpc2.Request) (any, error) {
					switch req.Method() {
					case "bad":
						return nil, &jrpc2.Error{Code: 7, Message: "e", Data: []byte("not json")}
					case "badresult":
						return make(chan int), nil
					}
					return "OK", nil
				}
				srv := jrpc2.NewServer(anyAssigner{hd}, &jrpc2.ServerOptions{Concurrency: 1})
				srv.Start(lib)
				for _, m := range msgs {
					peer.Send([]byte(m))
					vs.AwaitQuiescence()
				}
				peer.Send([]byte(`{"jsonrpc":"2.0","id":99,"method":"ok"}`))
				vs.AwaitQuiescence()
				peer.Close()
				srv.WaitStatus()
				// the client side: a callback handler whose error cannot be encoded still produces a whole reply message
				{
					lib3, peer3, _ := NewPipe(PipeOpts{Name: "cli2", CloseUnblocksRecv: true, Monitor: true})
					c3 := jrpc2.NewClient(lib3, &jrpc2.ClientOptions{OnCallback: func(ctx context.Context, req *jrpc2.Request) (any, error) {
						if req.Method() == "badresult" {
							return make(chan int), nil
						}
						return nil, &jrpc2.Error{Code: 7, Message: "e", Data: []byte("not json")}
					}})
					peer3.Send([]byte(`{"jsonrpc":"2.0","id":1,"method":"cb"}`))
					vs.AwaitQuiescence()
					peer3.Send([]byte(`{"jsonrpc":"2.0","id":2,"method":"badresult"}`))
					vs.AwaitQuiescence()
					peer3.Close()
					c3.Close()
				}
				// the client side: a batch without entries transmits nothing
				lib2, peer2, _ := NewPipe(PipeOpts{Name: "cli", CloseUnblocksRecv: true, Monitor: true})
				c := jrpc2.NewClient(lib2, nil)
				_, err1 := c.Batch(context.Background(), nil)
				_, err2 := c.Batch(context.Background(), []jrpc2.Spec{})
				vs.Note("empty-batch", errStr(err1), errStr(err2))
				vs.AwaitQuiescence()
				peer2.Close()
				c.Close()
			}
			check := func(x *vs.Exec) []Viol {
				v := genericRules(x, nil)
				v = append(v, disciplineRules(x, "srv", 1)...)
				v = append(v, disciplineRules(x, "cli", 1)...)
				v = append(v, disciplineRules(x, "cli2", 1)...)
				cbReplies := 0
				for _, o := range outEvents(x, "cli2") {
					if len(o.Raw) == 0 {
						v = append(v, Viol{"C10.R5", "the client passed an empty record to Send (reply to a callback whose handler's error could not be encoded)"})
					}
					if ms, _, err := parseRecord([]byte(o.Raw)); err == nil {
						for _, m := range ms {
							if (m.ID() == "1" || m.ID() == "2") && m.Has("error") {
								cbReplies++
							}
						}
					}
				}
				if x.Outcome == "ok" && cbReplies != 2 {
					v = append(v, Viol{"C10.R5", fmt.Sprintf("%d of the 2 callbacks whose handler outcome could not be encoded were answered with an error object", cbReplies)})
				}
				answered := false
				for _, o := range outEvents(x, "srv") {
					if len(o.Raw) == 0 {
						v = append(v, Viol{"C10.R5", "an empty record was passed to Send"})
					}
					ms, _, _ := parseRecord([]byte(o.Raw))
					for _, m := range ms {
						if m.ID() == "99" && m.Has("result") {
							answered = true
						}
					}
				}
				if x.Outcome == "ok" && !answered {
					v = append(v, Viol{"C10.R5", "after the replies that could not be encoded the server no longer answers a valid call"})
				}
				for _, o := range outEvents(x, "cli") {
					v = append(v, Viol{"C10.R5", "a batch without entries made the client transmit " + o.Raw})
				}
				return v
			}
			return &Instance{Body: body, Check: check}
		},
	}
}

func c10Scenarios(tier string) []*Scenario {
	var out []*Scenario
	out = append(out, c10ServerUnencodable())
	q := tier == "quick"
	b := Bounds{2, 2, 0}
	bb := Bounds{1, 2, 0}
	if !q {
		b, bb = Bounds{3, 2, 0}, Bounds{2, 2, 0}
	}
	out = append(out,
		c10Server(c10P{Traffic: []string{"c"}}, b),
		c10Server(c10P{Traffic: []string{"c", "c"}}, bb),
		c10Server(c10P{Traffic: []string{"c", "c"}}, Bounds{1, 1, 1}), // with one environment deviation
		c10Server(c10P{Traffic: []string{"[cc]", "c"}}, bb),
		c10Server(c10P{Traffic: []string{"c", "m"}}, bb),
		c10Server(c10P{Traffic: []string{"c"}, Notify: true}, b),
		c10Server(c10P{Traffic: []string{"c"}, Callback: true}, bb),
		c10Server(c10P{Traffic: []string{"c"}, Stop: true}, bb),
		c10Server(c10P{Traffic: []string{"m"}, Notify: true, Stop: true}, bb),
		c10Server(c10P{Traffic: []string{"c"}, Stop: true, Restart: true}, bb),
		c10Server(c10P{Traffic: []string{"[cc]"}, Notify: true, Callback: true}, Bounds{1, 1, 0}),
	)
	for _, k := range []string{"net.ErrClosed", "channel.ErrClosed", "io.ErrUnexpectedEOF", "io.ErrClosedPipe", "other"} {
		out = append(out, c10Server(c10P{Traffic: []string{"c"}, RecvErr: k}, Bounds{1, 1, 0}))
		out = append(out, c10ClientRecvErr(k, Bounds{1, 1, 0}))
	}
	out = append(out, c10ClientScenarios(tier)...)
	return out
}
