package main

import (
	"bytes"
	"context"
	"encoding/json"
	"fmt"
	"strconv"
	"strings"
	"unicode/utf8"

	"github.com/creachadair/jrpc2"
	"github.com/creachadair/jrpc2/channel"
	"github.com/creachadair/jrpc2/handler"
	"github.com/creachadair/jrpc2/jhttp"
	"verif/vs"
)

// C13 — wire encoding: every emitted message is one-line valid JSON-RPC that
// parses back; ParseRequests is total and flags exactly the invalid members.

func init() { register("C13", c13Scenarios) }

// ---- independent strict JSON validator (own tokenizer, RFC 8259) ----

type sj struct {
	b   []byte
	pos int
	err string
}

func (p *sj) ws() {
	for p.pos < len(p.b) && (p.b[p.pos] == ' ' || p.b[p.pos] == '\t' || p.b[p.pos] == '\n' || p.b[p.pos] == '\r') {
		p.pos++
	}
}

func (p *sj) fail(m string) any {
	if p.err == "" {
		p.err = fmt.Sprintf("%s at %d", m, p.pos)
	}
	return nil
}

func (p *sj) value() any {
	p.ws()
	if p.pos >= len(p.b) {
		return p.fail("unexpected end")
	}
	switch c := p.b[p.pos]; {
	case c == '{':
		p.pos++
		obj := map[string]any{}
		p.ws()
		if p.pos < len(p.b) && p.b[p.pos] == '}' {
			p.pos++
			return obj
		}
		for {
			p.ws()
			if p.pos >= len(p.b) || p.b[p.pos] != '"' {
				return p.fail("object key expected")
			}
			k := p.str()
			if p.err != "" {
				return nil
			}
			p.ws()
			if p.pos >= len(p.b) || p.b[p.pos] != ':' {
				return p.fail("colon expected")
			}
			p.pos++
			v := p.value()
			if p.err != "" {
				return nil
			}
			obj[k] = v
			p.ws()
			if p.pos < len(p.b) && p.b[p.pos] == ',' {
				p.pos++
				continue
			}
			if p.pos < len(p.b) && p.b[p.pos] == '}' {
				p.pos++
				return obj
			}
			return p.fail("comma or } expected")
		}
	case c == '[':
		p.pos++
		arr := []any{}
		p.ws()
		if p.pos < len(p.b) && p.b[p.pos] == ']' {
			p.pos++
			return arr
		}
		for {
			v := p.value()
			if p.err != "" {
				return nil
			}
			arr = append(arr, v)
			p.ws()
			if p.pos < len(p.b) && p.b[p.pos] == ',' {
				p.pos++
				continue
			}
			if p.pos < len(p.b) && p.b[p.pos] == ']' {
				p.pos++
				return arr
			}
			return p.fail("comma or ] expected")
		}
	case c == '"':
		return p.str()
	case c == 't':
		return p.lit("true", true)
	case c == 'f':
		return p.lit("false", false)
	case c == 'n':
		return p.lit("null", nil)
	case c == '-' || (c >= '0' && c <= '9'):
		start := p.pos
		if c == '-' {
			p.pos++
		}
		if p.pos >= len(p.b) {
			return p.fail("digit expected")
		}
		if p.b[p.pos] == '0' {
			p.pos++
		} else if p.b[p.pos] >= '1' && p.b[p.pos] <= '9' {
			for p.pos < len(p.b) && p.b[p.pos] >= '0' && p.b[p.pos] <= '9' {
				p.pos++
			}
		} else {
			return p.fail("digit expected")
		}
		if p.pos < len(p.b) && p.b[p.pos] == '.' {
			p.pos++
			n := 0
			for p.pos < len(p.b) && p.b[p.pos] >= '0' && p.b[p.pos] <= '9' {
				p.pos++
				n++
			}
			if n == 0 {
				return p.fail("fraction digits expected")
			}
		}
		if p.pos < len(p.b) && (p.b[p.pos] == 'e' || p.b[p.pos] == 'E') {
			p.pos++
			if p.pos < len(p.b) && (p.b[p.pos] == '+' || p.b[p.pos] == '-') {
				p.pos++
			}
			n := 0
			for p.pos < len(p.b) && p.b[p.pos] >= '0' && p.b[p.pos] <= '9' {
				p.pos++
				n++
			}
			if n == 0 {
				return p.fail("exponent digits expected")
			}
		}
		return json.Number(p.b[start:p.pos])
	}
	return p.fail("unexpected character")
}

func (p *sj) lit(s string, v any) any {
	if bytes.HasPrefix(p.b[p.pos:], []byte(s)) {
		p.pos += len(s)
		return v
	}
	return p.fail("bad literal")
}

func (p *sj) str() string {
	p.pos++ // opening quote
	var sb strings.Builder
	for p.pos < len(p.b) {
		c := p.b[p.pos]
		switch {
		case c == '"':
			p.pos++
			return sb.String()
		case c < 0x20:
			p.fail("raw control character in string")
			return ""
		case c == '\\':
			p.pos++
			if p.pos >= len(p.b) {
				p.fail("bad escape")
				return ""
			}
			switch e := p.b[p.pos]; e {
			case '"', '\\', '/':
				sb.WriteByte(e)
			case 'b':
				sb.WriteByte('\b')
			case 'f':
				sb.WriteByte('\f')
			case 'n':
				sb.WriteByte('\n')
			case 'r':
				sb.WriteByte('\r')
			case 't':
				sb.WriteByte('\t')
			case 'u':
				if p.pos+4 >= len(p.b) {
					p.fail("bad \\u escape")
					return ""
				}
				n, err := strconv.ParseUint(string(p.b[p.pos+1:p.pos+5]), 16, 32)
				if err != nil {
					p.fail("bad \\u escape")
					return ""
				}
				p.pos += 4
				r := rune(n)
				if r >= 0xD800 && r < 0xDC00 && p.pos+6 < len(p.b) && p.b[p.pos+1] == '\\' && p.b[p.pos+2] == 'u' {
					if n2, err := strconv.ParseUint(string(p.b[p.pos+3:p.pos+7]), 16, 32); err == nil && n2 >= 0xDC00 && n2 < 0xE000 {
						r = 0x10000 + (r-0xD800)<<10 + (rune(n2) - 0xDC00)
						p.pos += 6
					}
				}
				sb.WriteRune(r)
			default:
				p.fail("bad escape")
				return ""
			}
			p.pos++
		default:
			r, sz := utf8.DecodeRune(p.b[p.pos:])
			if r == utf8.RuneError && sz == 1 {
				p.fail("invalid UTF-8 in string")
				return ""
			}
			sb.WriteRune(r)
			p.pos += sz
		}
	}
	p.fail("unterminated string")
	return ""
}

// strictParse parses b as exactly one JSON value.
func strictParse(b []byte) (any, string) {
	p := &sj{b: b}
	v := p.value()
	if p.err == "" {
		p.ws()
		if p.pos != len(p.b) {
			p.fail("trailing data")
		}
	}
	return v, p.err
}

// wireRules judges one emitted record; want describes what must parse back.
type wireWant struct {
	Kind   string // request, notification, response
	Method string
	Params string // JSON text, "" = none
	Result string
	ErrObj string
	ID     string
}

func normJSON(v any) string {
	b, _ := json.Marshal(v)
	return string(b)
}

func sameJSON(a, b string) bool {
	va, ea := strictParse([]byte(a))
	vb, eb := strictParse([]byte(b))
	if ea != "" || eb != "" {
		return false
	}
	return numNorm(normJSON(va)) == numNorm(normJSON(vb))
}

// numNorm: json.Number marshals as its literal text; normalise numeric spellings through float64 where exact.
func numNorm(s string) string {
	var v any
	d := json.NewDecoder(strings.NewReader(s))
	d.UseNumber()
	if d.Decode(&v) != nil {
		return s
	}
	var walk func(x any) any
	walk = func(x any) any {
		switch t := x.(type) {
		case json.Number:
			if f, err := strconv.ParseFloat(string(t), 64); err == nil {
				return strconv.FormatFloat(f, 'g', -1, 64)
			}
			return string(t)
		case []any:
			for i := range t {
				t[i] = walk(t[i])
			}
			return t
		case map[string]any:
			for k := range t {
				t[k] = walk(t[k])
			}
			return t
		}
		return x
	}
	b, _ := json.Marshal(walk(v))
	return string(b)
}

func wireRules(rec []byte, want *wireWant) []Viol {
	var v []Viol
	in := string(rec)
	if len(in) > 160 {
		in = in[:160] + "..."
	}
	fail := func(rule, msg string) { v = append(v, Viol{rule, fmt.Sprintf("emitted %q: %s", in, msg)}) }
	Hit("C13.R1")
	if !utf8.Valid(rec) {
		fail("C13.R1", "not valid UTF-8")
	}
	for _, c := range rec {
		if c < 0x20 {
			fail("C13.R1", fmt.Sprintf("raw control byte 0x%02x (not a single line / not sendable on every framing)", c))
			break
		}
	}
	Hit("C13.R2")
	val, perr := strictParse(rec)
	if perr != "" {
		fail("C13.R2", "independent validator rejects it: "+perr)
		return v
	}
	var members []map[string]any
	switch t := val.(type) {
	case map[string]any:
		members = []map[string]any{t}
	case []any:
		if len(t) == 0 {
			fail("C13.R2", "empty array")
		}
		for _, e := range t {
			m, ok := e.(map[string]any)
			if !ok {
				fail("C13.R2", "array member is not an object")
				return v
			}
			members = append(members, m)
		}
	default:
		fail("C13.R2", "not an object or array")
		return v
	}
	for _, m := range members {
		if m["jsonrpc"] != "2.0" {
			fail("C13.R2", `missing "jsonrpc":"2.0"`)
		}
	}
	// R4: accepted by every framing's Send
	Hit("C13.R4")
	for _, fs := range framings() {
		w := &bufWC{}
		if err := fs.F(bytes.NewReader(nil), w).Send(append([]byte(nil), rec...)); err != nil {
			fail("C13.R4", fmt.Sprintf("framing %s refuses the record: %v", fs.Name, err))
		}
	}
	if want == nil || len(members) != 1 {
		return v
	}
	m := members[0]
	Hit("C13.R3")
	switch want.Kind {
	case "request", "notification":
		if m["method"] != want.Method {
			fail("C13.R3", fmt.Sprintf("method parses back as %q, want %q", m["method"], want.Method))
		}
		_, hasID := m["id"]
		if hasID != (want.Kind == "request") {
			fail("C13.R3", "id presence does not match the message kind")
		}
		if want.Params == "" {
			if _, ok := m["params"]; ok {
				fail("C13.R3", "params present although none were given")
			}
		} else if !sameJSON(normJSON(m["params"]), want.Params) {
			fail("C13.R3", fmt.Sprintf("params parse back as %s, want %s", normJSON(m["params"]), want.Params))
		}
		// the library's own parser
		prs, err := jrpc2.ParseRequests(rec)
		if err != nil || len(prs) != 1 || prs[0].Error != nil {
			fail("C13.R3", fmt.Sprintf("ParseRequests does not accept the library's own request: %v", err))
		} else {
			if prs[0].Method != want.Method {
				fail("C13.R3", fmt.Sprintf("ParseRequests method %q, want %q", prs[0].Method, want.Method))
			}
			if want.Params != "" && !sameJSON(string(prs[0].Params), want.Params) {
				fail("C13.R3", fmt.Sprintf("ParseRequests params %s, want %s", prs[0].Params, want.Params))
			}
		}
	case "response":
		if want.ID != "" && !sameJSON(normJSON(m["id"]), want.ID) {
			fail("C13.R3", fmt.Sprintf("id parses back as %s, want %s", normJSON(m["id"]), want.ID))
		}
		_, hasR := m["result"]
		_, hasE := m["error"]
		if hasR == hasE {
			fail("C13.R3", "response must have exactly one of result / error")
		}
		if want.Result != "" && (!hasR || !sameJSON(normJSON(m["result"]), want.Result)) {
			fail("C13.R3", fmt.Sprintf("result parses back as %s, want %s", normJSON(m["result"]), want.Result))
		}
		if want.ErrObj != "" && (!hasE || !sameJSON(normJSON(m["error"]), want.ErrObj)) {
			fail("C13.R3", fmt.Sprintf("error parses back as %s, want %s", normJSON(m["error"]), want.ErrObj))
		}
	}
	return v
}

// ---- value / method alphabets ----

var c13Runes = []rune{'a', '"', '\\', '\n', '\t', 0x00, 0x7f, '<', '>', '&', 'é', 0x2028, 0xFFFD, 0x1F600}

func c13Methods() []string {
	var out []string
	for _, a := range c13Runes {
		out = append(out, string(a))
		for _, b := range c13Runes {
			out = append(out, string([]rune{a, b}))
		}
	}
	return out
}

func c13Atoms() []any {
	return []any{0, -1, 1e308, float64(1<<53 + 1), int64(1<<53 + 1), "", "é\n", "<&> ", true, nil, []any{}, map[string]any{}}
}

func c13Values() []any {
	at := c13Atoms()
	var d1 []any
	for _, x := range at {
		d1 = append(d1, []any{x}, map[string]any{"k": x})
	}
	var d2 []any
	for _, x := range d1 {
		d2 = append(d2, []any{x, 1}, map[string]any{"k\n": x})
	}
	out := append([]any{}, at...)
	out = append(out, d1...)
	return append(out, d2...)
}

// raw pre-encoded variants with white space at token boundaries
func wsVariants(compact string) []string {
	// token boundaries of a compact JSON text (outside strings)
	var bounds []int
	inStr := false
	for i := 0; i < len(compact); i++ {
		c := compact[i]
		if inStr {
			if c == '\\' {
				i++
			} else if c == '"' {
				inStr = false
			}
			continue
		}
		if c == '"' {
			inStr = true
		}
		if strings.ContainsRune("{}[],:", rune(c)) {
			bounds = append(bounds, i, i+1)
		}
	}
	bounds = append(bounds, 0, len(compact))
	seen := map[string]bool{}
	var out []string
	add := func(s string) {
		if !seen[s] {
			seen[s] = true
			out = append(out, s)
		}
	}
	add(compact)
	for _, ws := range []string{" ", "\n", "\r\n", "\t"} {
		for _, b := range bounds {
			add(compact[:b] + ws + compact[b:])
		}
		// every boundary at once
		var sb strings.Builder
		prev := 0
		bs := append([]int(nil), bounds...)
		sortInts(bs)
		for _, b := range bs {
			sb.WriteString(compact[prev:b])
			sb.WriteString(ws)
			prev = b
		}
		sb.WriteString(compact[prev:])
		add(sb.String())
	}
	return out
}

func sortInts(a []int) {
	for i := 1; i < len(a); i++ {
		for j := i; j > 0 && a[j] < a[j-1]; j-- {
			a[j], a[j-1] = a[j-1], a[j]
		}
	}
}

func isStructured(v any) bool {
	switch v.(type) {
	case []any, map[string]any:
		return true
	}
	return false
}

// c13Client: requests, notifications and batches emitted by a Client (captured on a raw Pipe).
func c13Client(methods []string, label string) *Scenario {
	return &Scenario{
		Name:   "client-emitted requests: " + label,
		Params: map[string]any{"methods": len(methods), "values": len(c13Values())},
		Seq: func(r *SeqRun) {
			vals := c13Values()
			type item struct {
				method string
				params any
				raw    string
			}
			var items []item
			for i, m := range methods {
				items = append(items, item{m, nil, ""})
				v := vals[i%len(vals)]
				items = append(items, item{m, v, ""})
			}
			for _, v := range vals {
				items = append(items, item{"m", v, ""})
				if isStructured(v) {
					for _, w := range wsVariants(normJSON(v)) {
						items = append(items, item{"m", json.RawMessage(w), w})
					}
				}
			}
			for start := 0; start < len(items); start += 200 {
				if r.Expired() {
					return
				}
				end := start + 200
				if end > len(items) {
					end = len(items)
				}
				chunk := items[start:end]
				var pipe *Pipe
				type sent struct {
					it    item
					err   error
					nOut  int
					batch bool
				}
				var log []sent
				x := vs.Run(nil, func() {
					lib, peer, p := NewPipe(PipeOpts{Name: "cli", CloseUnblocksRecv: true, Quiet: true})
					pipe = p
					c := jrpc2.NewClient(lib, nil)
					vs.GoNamed("peer", func() {
						for {
							rec, ok := peer.Recv()
							if !ok {
								break
							}
							ms, _, _ := parseRecord(rec)
							var rs []string
							for _, m := range ms {
								if m.Has("id") {
									rs = append(rs, fmt.Sprintf(`{"jsonrpc":"2.0","id":%s,"result":1}`, m.ID()))
								}
							}
							if len(rs) == 1 {
								peer.Send([]byte(rs[0]))
							} else if len(rs) > 1 {
								peer.Send([]byte("[" + strings.Join(rs, ",") + "]"))
							}
						}
						peer.Close()
					})
					for i, it := range chunk {
						before := len(pipe.Out)
						var err error
						switch i % 3 {
						case 0:
							err = c.Notify(context.Background(), it.method, it.params)
							log = append(log, sent{it, err, len(pipe.Out) - before, false})
						case 1:
							_, err = c.Call(context.Background(), it.method, it.params)
							log = append(log, sent{it, err, len(pipe.Out) - before, false})
						case 2:
							_, err = c.Batch(context.Background(), []jrpc2.Spec{{Method: it.method, Params: it.params}, {Method: it.method, Params: it.params, Notify: true}})
							log = append(log, sent{it, err, len(pipe.Out) - before, true})
						}
					}
					c.Close()
				})
				r.Calls(x.Steps)
				if x.Outcome != "ok" {
					r.Fail("G1", fmt.Sprintf("chunk %d", start), "client run ended with "+x.Outcome+" "+firstLine(x.Detail), "")
					continue
				}
				oi := 0
				for i, s := range log {
					rawParams := ""
					structured := false
					if s.it.params != nil {
						if rm, ok := s.it.params.(json.RawMessage); ok {
							rawParams = string(rm)
							structured = true
						} else {
							rawParams = normJSON(s.it.params)
							structured = isStructured(s.it.params)
						}
					}
					class := fmt.Sprintf("kind%d/params:%v/structured:%v/err:%v", i%3, s.it.params != nil, structured, s.err != nil)
					r.Case(class, s.it.params != nil)
					desc := fmt.Sprintf("method %q params %s", s.it.method, rawParams)
					if s.it.method == "" {
						oi += s.nOut
						continue
					}
					if s.it.params != nil && !structured {
						// scalar params must be refused before transmission
						if s.err == nil || s.nOut != 0 {
							r.Fail("C13.R3", desc, "scalar params were transmitted instead of being refused", "")
						}
						oi += s.nOut
						continue
					}
					if s.err != nil || s.nOut != 1 {
						r.Fail("C13.R3", desc, fmt.Sprintf("request was not transmitted as exactly one record: err=%v records=%d", s.err, s.nOut), "")
						oi += s.nOut
						continue
					}
					rec := pipe.Out[oi]
					oi++
					var want *wireWant
					if !s.batch {
						kind := "notification"
						if i%3 == 1 {
							kind = "request"
						}
						want = &wireWant{Kind: kind, Method: s.it.method, Params: rawParams}
					}
					for _, vi := range wireRules(rec, want) {
						r.Fail(vi.Rule, desc, vi.Msg, "")
					}
					if s.batch {
						prs, err := jrpc2.ParseRequests(rec)
						if err != nil || len(prs) != 2 || prs[0].Method != s.it.method || prs[1].Method != s.it.method || prs[0].ID == "" || prs[1].ID != "" {
							r.Fail("C13.R3", desc, fmt.Sprintf("batch does not parse back as [call, notification] of the method: %q", rec), "")
						}
					}
				}
			}
			r.Sample(map[string]any{"method": "\"\n", "params": map[string]any{"k\n": []any{"é\n"}}, "as": "Notify / Call / Batch"})
		},
	}
}

// c13Server: responses, error responses and pushes emitted by a Server.
func c13Server() *Scenario {
	return &Scenario{
		Name:   "server-emitted responses, errors and pushes",
		Params: map[string]any{"values": len(c13Values()), "ids": c02ID},
		Seq: func(r *SeqRun) {
			vals := c13Values()
			type item struct {
				id      string
				result  any
				errData any
				rawData string // error data as raw JSON text placed in Error.Data directly
				isErr   bool
				msg     string
			}
			var items []item
			ids := []string{"7", "-3", "0", "1.5", "1e3", `"s"`, `""`, `"1"`, `"é\n"`, `" "`}
			for i, v := range vals {
				items = append(items, item{id: ids[i%len(ids)], result: v})
				items = append(items, item{id: ids[(i+3)%len(ids)], isErr: true, errData: v, msg: "m\n\"" + string(c13Runes[i%len(c13Runes)])})
				for _, w := range wsVariants(normJSON(v)) {
					items = append(items, item{id: "1", result: json.RawMessage(w)})
					// the same raw pre-encoded text as the data of an error object built by hand (a relayed upstream error)
					items = append(items, item{id: "2", isErr: true, rawData: w, msg: "relayed"})
				}
			}
			for start := 0; start < len(items); start += 150 {
				if r.Expired() {
					return
				}
				end := start + 150
				if end > len(items) {
					end = len(items)
				}
				chunk := items[start:end]
				var pipe *Pipe
				idx := 0
				x := vs.Run(nil, func() {
					lib, peer, p := NewPipe(PipeOpts{Name: "srv", CloseUnblocksRecv: true, Quiet: true})
					pipe = p
					hd := func(ctx context.Context, req *jrpc2.Request) (any, error) {
						it := chunk[idx]
						if it.isErr && it.rawData != "" {
							return nil, &jrpc2.Error{Code: 7, Message: it.msg, Data: json.RawMessage(it.rawData)}
						}
						if it.isErr {
							e := &jrpc2.Error{Code: 7, Message: it.msg}
							return nil, e.WithData(it.errData)
						}
						return it.result, nil
					}
					srv := jrpc2.NewServer(anyAssigner{hd}, &jrpc2.ServerOptions{Concurrency: 1, AllowPush: true})
					srv.Start(lib)
					for i := range chunk {
						idx = i
						peer.Send([]byte(fmt.Sprintf(`{"jsonrpc":"2.0","id":%s,"method":"m"}`, chunk[i].id)))
						peer.Recv()
						if i%10 == 0 {
							srv.Notify(context.Background(), string(c13Runes[i%len(c13Runes)])+"p", chunk[i].result)
							peer.Recv()
						}
					}
					peer.Close()
					srv.WaitStatus()
				})
				r.Calls(x.Steps)
				if x.Outcome != "ok" {
					r.Fail("G1", fmt.Sprintf("chunk %d", start), "server run ended with "+x.Outcome+" "+firstLine(x.Detail), "")
					continue
				}
				oi := 0
				for i, it := range chunk {
					if oi >= len(pipe.Out) {
						r.Fail("C13.R3", fmt.Sprint(it), "no response emitted", "")
						break
					}
					rec := pipe.Out[oi]
					oi++
					want := &wireWant{Kind: "response", ID: it.id}
					if it.isErr {
						eo := map[string]any{"code": 7, "message": it.msg}
						if it.errData != nil {
							eo["data"] = it.errData
						}
						if it.rawData != "" {
							eo["data"] = json.RawMessage(it.rawData)
						}
						want.ErrObj = normJSON(eo)
					} else if rm, ok := it.result.(json.RawMessage); ok {
						want.Result = string(rm)
					} else {
						want.Result = normJSON(it.result)
					}
					r.Case(fmt.Sprintf("response/err:%v/raw:%v", it.isErr, strings.ContainsAny(want.Result, "\n\t ")), true)
					for _, vi := range wireRules(rec, want) {
						r.Fail(vi.Rule, fmt.Sprintf("response id %s result %s err %v", it.id, want.Result, it.isErr), vi.Msg, "")
					}
					if i%10 == 0 && oi < len(pipe.Out) {
						prec := pipe.Out[oi]
						oi++
						var pw *wireWant
						if isStructured(it.result) {
							pw = &wireWant{Kind: "notification", Method: string(c13Runes[i%len(c13Runes)]) + "p", Params: normJSON(it.result)}
						}
						if _, ok := it.result.(json.RawMessage); ok {
							pw = nil
						}
						r.Case("push", true)
						for _, vi := range wireRules(prec, pw) {
							r.Fail(vi.Rule, "pushed notification", vi.Msg, "")
						}
					}
				}
			}
			// a run of server callbacks: every pushed call is a valid request with an id, from the first to the 17th
			var cbOut [][]byte
			xc := vs.Run(nil, func() {
				lib, peer, p := NewPipe(PipeOpts{Name: "srv", CloseUnblocksRecv: true, Quiet: true})
				srv := jrpc2.NewServer(anyAssigner{func(context.Context, *jrpc2.Request) (any, error) { return 1, nil }}, &jrpc2.ServerOptions{AllowPush: true})
				srv.Start(lib)
				for k := 0; k < 17; k++ {
					ctx, cancel := cancelCauseCtx()
					vs.GoNamed("cb", func() { srv.Callback(ctx, "cb", []int{k}) })
					vs.AwaitQuiescence()
					cancel()
					vs.AwaitQuiescence()
				}
				cbOut = p.Out
				peer.Close()
				srv.WaitStatus()
			})
			r.Calls(xc.Steps)
			if xc.Outcome != "ok" {
				r.Fail("G1", "17 callbacks", "server run ended with "+xc.Outcome+" "+firstLine(xc.Detail), "")
			}
			if len(cbOut) != 17 {
				r.Fail("C13.R3", "17 callbacks", fmt.Sprintf("%d records emitted", len(cbOut)), "")
			}
			for k, rec := range cbOut {
				r.Case("push/callback", true)
				for _, vi := range wireRules(rec, &wireWant{Kind: "request", Method: "cb", Params: fmt.Sprintf("[%d]", k)}) {
					r.Fail(vi.Rule, fmt.Sprintf("callback number %d", k+1), vi.Msg, "")
				}
			}
			r.Sample(map[string]any{"id": `"é\n"`, "result": "raw pre-encoded JSON with CRLF between tokens", "error_data": map[string]any{"k\n": []any{nil}}})
		},
	}
}

// c13ServerBatch: batches whose members end in every combination of a result, an error with data, and
// values the encoder cannot turn into JSON (error data or a raw result that is not JSON). Whatever
// the server emits for such a batch must still be one valid message; the good members' replies, when
// a reply is emitted, must be the right ones.
func c13ServerBatch() *Scenario {
	kinds := []string{"ok", "err", "err-data-not-json", "err-data-cut", "raw-result-not-json"}
	return &Scenario{
		Name:   "server-emitted batch replies: every combination of <=3 members over {result, error, error whose data is not JSON, raw result that is not JSON}",
		Params: map[string]any{"kinds": kinds, "max_members": 3},
		Seq: func(r *SeqRun) {
			var combos [][]int
			var gen func(cur []int)
			gen = func(cur []int) {
				if len(cur) >= 1 {
					combos = append(combos, append([]int(nil), cur...))
				}
				if len(cur) < 3 {
					for k := range kinds {
						gen(append(cur, k))
					}
				}
			}
			gen(nil)
			var pipe *Pipe
			marks := make([]int, len(combos)+1)
			x := vs.Run(nil, func() {
				lib, peer, p := NewPipe(PipeOpts{Name: "srv", CloseUnblocksRecv: true, Quiet: true})
				pipe = p
				hd := func(ctx context.Context, req *jrpc2.Request) (any, error) {
					var k int
					req.UnmarshalParams(&handler.Args{&k})
					switch kinds[k] {
					case "err":
						return nil, (&jrpc2.Error{Code: 7, Message: "e"}).WithData([]int{1})
					case "err-data-not-json":
						return nil, &jrpc2.Error{Code: 7, Message: "e", Data: json.RawMessage("plain text")}
					case "err-data-cut":
						return nil, &jrpc2.Error{Code: 7, Message: "e", Data: json.RawMessage(`{"a":`)}
					case "raw-result-not-json":
						return json.RawMessage(`]`), nil
					}
					return "OK", nil
				}
				srv := jrpc2.NewServer(anyAssigner{hd}, &jrpc2.ServerOptions{Concurrency: 1})
				srv.Start(lib)
				for ci, cb := range combos {
					marks[ci] = len(p.Out)
					var ms []string
					for i, k := range cb {
						ms = append(ms, fmt.Sprintf(`{"jsonrpc":"2.0","id":%d,"method":"m","params":[%d]}`, i+1, k))
					}
					peer.Send([]byte("[" + strings.Join(ms, ",") + "]"))
					vs.AwaitQuiescence()
				}
				marks[len(combos)] = len(p.Out)
				peer.Close()
				srv.WaitStatus()
			})
			r.Calls(x.Steps)
			if x.Outcome != "ok" {
				r.Fail("G1", "batches", "server run ended with "+x.Outcome+" "+firstLine(x.Detail), "")
				return
			}
			for ci, cb := range combos {
				var names []string
				allGood := true
				for _, k := range cb {
					names = append(names, kinds[k])
					if k >= 2 {
						allGood = false
					}
				}
				input := "batch [" + strings.Join(names, ", ") + "]"
				out := pipe.Out[marks[ci]:marks[ci+1]]
				r.Case(fmt.Sprintf("batch/%d/allgood:%v/emitted:%d", len(cb), allGood, len(out)), true)
				if allGood && len(out) != 1 {
					r.Fail("C13.R3", input, fmt.Sprintf("%d records emitted for a batch whose members can all be encoded", len(out)), "")
				}
				for _, rec := range out {
					for _, vi := range wireRules(rec, nil) {
						r.Fail(vi.Rule, input, vi.Msg, "")
					}
					val, perr := strictParse(rec)
					arr, _ := val.([]any)
					if perr != "" || arr == nil {
						continue
					}
					Hit("C13.R3")
					for _, e := range arr {
						m, _ := e.(map[string]any)
						idf, _ := m["id"].(json.Number)
						i := int(idf.String()[0]-'0') - 1
						if len(idf.String()) != 1 || i < 0 || i >= len(cb) {
							r.Fail("C13.R3", input, fmt.Sprintf("reply carries id %v, which no member of the batch had", m["id"]), "")
							continue
						}
						switch kinds[cb[i]] {
						case "ok":
							if normJSON(m["result"]) != `"OK"` {
								r.Fail("C13.R3", input, fmt.Sprintf("member %d: result parses back as %s, want \"OK\"", i+1, normJSON(m["result"])), "")
							}
						case "err":
							if !sameJSON(normJSON(m["error"]), `{"code":7,"message":"e","data":[1]}`) {
								r.Fail("C13.R3", input, fmt.Sprintf("member %d: error parses back as %s", i+1, normJSON(m["error"])), "")
							}
						}
					}
				}
			}
			r.Sample(map[string]any{"batch": []string{"ok", "err-data-not-json", "ok"}})
		},
	}
}

// c13Marshal: Response.MarshalJSON of responses obtained through a real client/server pair.
func c13Marshal() *Scenario {
	return &Scenario{
		Name: "Response.MarshalJSON of received responses",
		Seq: func(r *SeqRun) {
			vals := c13Values()
			var outs [][]byte
			var wants []*wireWant
			x := vs.Run(nil, func() {
				cch, sch := channel.Direct()
				idx := 0
				hd := func(ctx context.Context, req *jrpc2.Request) (any, error) {
					if idx%2 == 1 {
						e := &jrpc2.Error{Code: 9, Message: "x\ny"}
						return nil, e.WithData(vals[idx/2])
					}
					return vals[idx/2], nil
				}
				srv := jrpc2.NewServer(anyAssigner{hd}, nil).Start(sch)
				cli := jrpc2.NewClient(cch, nil)
				for i := 0; i < 2*len(vals); i++ {
					idx = i
					ctx := context.Background()
					if i%2 == 0 {
						rsp, err := cli.Call(ctx, "m", nil)
						if err == nil {
							b, merr := rsp.MarshalJSON()
							if merr == nil {
								outs = append(outs, b)
								wants = append(wants, &wireWant{Kind: "response", ID: rsp.ID(), Result: normJSON(vals[i/2])})
							}
						}
					} else {
						rsps, err := cli.Batch(ctx, []jrpc2.Spec{{Method: "m"}})
						if err == nil && len(rsps) == 1 {
							b, merr := json.Marshal(rsps[0])
							if merr == nil {
								eo := map[string]any{"code": 9, "message": "x\ny"}
								if vals[i/2] != nil {
									eo["data"] = vals[i/2]
								}
								outs = append(outs, b)
								wants = append(wants, &wireWant{Kind: "response", ID: rsps[0].ID(), ErrObj: normJSON(eo)})
							}
						}
					}
				}
				cli.Close()
				srv.WaitStatus()
			})
			r.Calls(x.Steps)
			if x.Outcome != "ok" {
				r.Fail("G1", "marshal", "run ended with "+x.Outcome+" "+firstLine(x.Detail), "")
			}
			if len(outs) != 2*len(vals) {
				r.Fail("C13.R3", "marshal", fmt.Sprintf("only %d of %d responses could be obtained and marshalled", len(outs), 2*len(vals)), "")
			}
			for i, b := range outs {
				r.Case(fmt.Sprintf("marshal/%v", wants[i].ErrObj != ""), true)
				for _, vi := range wireRules(b, wants[i]) {
					r.Fail(vi.Rule, "Response.MarshalJSON", vi.Msg, "")
				}
			}
			r.Sample(map[string]any{"response": "result [\"é\\n\"] marshalled by Response.MarshalJSON"})
		},
	}
}

// c13Parse: ParseRequests on every C02 input compared with the classifier.
func c13Parse(maxLen int) *Scenario {
	return &Scenario{
		Name:   fmt.Sprintf("ParseRequests: field-variant members, class-representative batches, byte strings<=%d", maxLen),
		Params: map[string]any{"envelope_alphabet": `{}[]":,1an `, "max_length": maxLen},
		Seq: func(r *SeqRun) {
			judge := func(in []byte) {
				var prs []*jrpc2.ParsedRequest
				var err error
				p := guarded(func() { prs, err = jrpc2.ParseRequests(in) })
				r.Calls(1)
				if p != "" {
					r.Fail("G1", string(in), "ParseRequests panicked: "+p, "")
					return
				}
				exp := classifyRecord(in)
				Hit("C13.R5")
				if exp.NotJSON != (err != nil) {
					r.Fail("C13.R5", string(in), fmt.Sprintf("top-level error %v for input with json.Valid=%v", err, !exp.NotJSON), "")
					return
				}
				if exp.NotJSON {
					r.Case("notjson", true)
					return
				}
				Hit("C13.R6")
				if len(prs) != len(exp.Members) {
					r.Fail("C13.R6", string(in), fmt.Sprintf("%d entries for %d members", len(prs), len(exp.Members)), "")
					return
				}
				cl := ""
				for i, m := range exp.Members {
					Hit("C13.R7")
					if m.Invalid != (prs[i].Error != nil) {
						r.Fail("C13.R7", string(in), fmt.Sprintf("member %d: classifier invalid=%v, ParseRequests error=%v", i, m.Invalid, prs[i].Error), "")
						continue
					}
					if m.Invalid {
						cl += "I"
						if c := prs[i].Error.Code; c != -32700 && c != -32600 {
							r.Fail("C13.R7", string(in), fmt.Sprintf("member %d flagged with code %d (a Server would answer -32700 or -32600)", i, c), "")
						}
					} else {
						cl += "V"
						if prs[i].Method != m.Method {
							r.Fail("C13.R6", string(in), fmt.Sprintf("member %d method %q, want %q", i, prs[i].Method, m.Method), "")
						}
						wantID := m.EchoID
						if m.IsNote {
							wantID = ""
						}
						if prs[i].ID != wantID {
							r.Fail("C13.R6", string(in), fmt.Sprintf("member %d id %q, want %q", i, prs[i].ID, wantID), "")
						}
					}
				}
				r.Case("parse/"+cl, strings.Contains(cl, "I"))
			}
			for _, ver := range c02Ver {
				for _, id := range c02ID {
					for _, m := range c02Method {
						for _, p := range c02Params {
							for _, e := range c02Extra {
								mem := c02Member(ver, id, m, p, e)
								judge([]byte(mem))
								judge([]byte("[" + mem + "]"))
							}
						}
					}
				}
				if r.Expired() {
					return
				}
			}
			reps := c02Reps()
			for _, a := range reps {
				for _, b := range reps {
					judge([]byte("[" + a + "," + b + "]"))
				}
			}
			// JSON white space (SP TAB LF CR and mixtures) before, after and inside the envelope
			for _, ws := range []string{" ", "\t", "\n", "\r", "\r\n", " \r\n\t "} {
				for i, a := range reps {
					b := reps[(i+1)%len(reps)]
					for _, in := range []string{ws + a, a + ws, ws + "[" + a + "]", "[" + a + "]" + ws, ws + "[" + ws + a + ws + "," + ws + b + ws + "]" + ws, strings.Replace(a, ":", ws+":"+ws, -1)} {
						judge([]byte(in))
					}
				}
				for _, in := range []string{ws, ws + "[]", "[" + ws + "]", ws + "{}", ws + "5"} {
					judge([]byte(in))
				}
			}
			for _, ns := range []string{"\v", "\f", "\u0085", "\u00a0", "\u2028", "\u3000", "\ufeff", "\x00"} {
				for _, a := range reps[:4] {
					for _, in := range []string{ns + a, a + ns, ns + "[" + a + "]", "[" + a + "]" + ns, "[" + ns + a + "]", ns} {
						judge([]byte(in))
					}
				}
			}
			alpha := []byte(`{}[]":,1an `)
			var rec func(cur []byte)
			rec = func(cur []byte) {
				judge(cur)
				if len(cur) < maxLen {
					for _, c := range alpha {
						rec(append(append([]byte(nil), cur...), c))
					}
				}
			}
			rec(nil)
			r.Sample(map[string]any{"input": `[{"jsonrpc":"1.0","id":6,"method":"ok"},5]`})
		},
	}
}

// c13Bridge: replies emitted by a jhttp.Bridge. The handler echoes its params, so each reply
// must parse back to the posting caller's own id and a result JSON-equal to the params, for
// single calls and for batches with notifications before / between / after the calls.
func c13Bridge() *Scenario {
	return &Scenario{
		Name:   "bridge replies: echo through jhttp.Bridge, single and batch bodies",
		Params: map[string]any{"values": len(c13Values()), "ids": 10, "shapes": []string{"call", "[call]", "[note,call]", "[call,note,call]", "[call,call,note]", "[unknown,call]"}},
		Seq: func(r *SeqRun) {
			vals := c13Values()
			ids := []string{"7", "-3", "0", "1.5", "1e3", `"s"`, `""`, `"1"`, `"é\n"`, `" "`}
			type exp struct{ id, result string }
			type body struct {
				text string
				want []exp
				one  bool
			}
			var bodies []body
			mk := func(id, params string) string {
				if id == "" {
					return `{"jsonrpc":"2.0","method":"echo","params":` + params + `}`
				}
				return `{"jsonrpc":"2.0","id":` + id + `,"method":"echo","params":` + params + `}`
			}
			for i, v := range vals {
				ps := normJSON(v)
				if !isStructured(v) {
					ps = "[" + ps + "]"
				}
				a, b := ids[i%len(ids)], ids[(i+3)%len(ids)]
				note := mk("", `["n"]`)
				bodies = append(bodies,
					body{mk(a, ps), []exp{{a, ps}}, true},
					body{"[" + mk(a, ps) + "]", []exp{{a, ps}}, false},
					body{"[" + note + "," + mk(a, ps) + "]", []exp{{a, ps}}, false},
					body{"[" + mk(a, ps) + "," + note + "," + mk(b, `["second"]`) + "]", []exp{{a, ps}, {b, `["second"]`}}, false},
					body{"[" + mk(b, `["first"]`) + "," + mk(a, ps) + "," + note + "]", []exp{{b, `["first"]`}, {a, ps}}, false},
					body{`[{"jsonrpc":"2.0","id":` + b + `,"method":"nope"},` + mk(a, ps) + "]", []exp{{b, ""}, {a, ps}}, false},
				)
			}
			for start := 0; start < len(bodies); start += 60 {
				if r.Expired() {
					return
				}
				end := start + 60
				if end > len(bodies) {
					end = len(bodies)
				}
				chunk := bodies[start:end]
				x := vs.Run(nil, func() {
					hd := func(ctx context.Context, req *jrpc2.Request) (any, error) {
						var p json.RawMessage
						req.UnmarshalParams(&p)
						return p, nil
					}
					br := jhttp.NewBridge(assignerFunc(func(ctx context.Context, m string) jrpc2.Handler {
						if m == "echo" {
							return hd
						}
						return nil
					}), nil)
					defer br.Close()
					for _, bd := range chunk {
						res := doHTTP(br, "POST", "application/json", bd.text)
						vs.AwaitQuiescence()
						r.Case(fmt.Sprintf("bridge/%d/%v", len(bd.want), bd.one), true)
						if res.Status != 200 {
							r.Fail("C13.R3", bd.text, fmt.Sprintf("bridge status %d body %q", res.Status, res.Body), "")
							continue
						}
						rec := []byte(strings.TrimRight(res.Body, "\n"))
						var w1 *wireWant
						if bd.one {
							w1 = &wireWant{Kind: "response", ID: bd.want[0].id, Result: bd.want[0].result}
						}
						for _, vi := range wireRules(rec, w1) {
							r.Fail(vi.Rule, bd.text, vi.Msg, "")
						}
						val, perr := strictParse(rec)
						if perr != "" {
							continue // reported by wireRules
						}
						var members []any
						switch t := val.(type) {
						case []any:
							members = t
						default:
							members = []any{t}
						}
						if (len(members) == 1 && bd.one) != bd.one || len(members) != len(bd.want) {
							r.Fail("C13.R3", bd.text, fmt.Sprintf("%d reply members for %d calls: %s", len(members), len(bd.want), rec), "")
							continue
						}
						// each expected (id, result) must be matched by exactly one member
						used := make([]bool, len(members))
						for _, w := range bd.want {
							found := false
							for j, mm := range members {
								m, ok := mm.(map[string]any)
								if !ok || used[j] {
									continue
								}
								idv, has := m["id"]
								if !has || !sameJSON(normJSON(idv), w.id) {
									continue
								}
								if w.result == "" {
									if _, isErr := m["error"]; !isErr {
										continue
									}
								} else if rv, ok := m["result"]; !ok || !sameJSON(normJSON(rv), w.result) {
									continue
								}
								used[j], found = true, true
								break
							}
							if !found {
								r.Fail("C13.R3", bd.text, fmt.Sprintf("no reply member parses back to id %s with the outcome of that call (%s): %s", w.id, w.result, rec), "")
							}
						}
					}
				})
				r.Calls(x.Steps)
				if x.Outcome != "ok" {
					r.Fail("G1", fmt.Sprintf("bodies %d..%d", start, end), "bridge run ended with "+x.Outcome+" "+firstLine(x.Detail), "")
				}
			}
			r.Sample(map[string]any{"body": `[{"jsonrpc":"2.0","method":"echo","params":["n"]},{"jsonrpc":"2.0","id":"é\n","method":"echo","params":{"k\n":[null]}}]`})
		},
	}
}

func c13Scenarios(tier string) []*Scenario {
	out := []*Scenario{c13Client(c13Methods(), "every method name of <=2 runes over 14 special runes x values of depth<=2 and white-space variants of raw params"), c13Server(), c13ServerBatch(), c13Marshal(), c13Bridge()}
	if tier == "quick" {
		out = append(out, c13Parse(4))
		return out
	}
	out = append(out, c13Parse(6))
	// every single rune as a one-rune method name, sharded
	const shards = 16
	for s := 0; s < shards; s++ {
		var ms []string
		for rn := rune(s); rn <= 0x10FFFF; rn += shards {
			if rn >= 0xD800 && rn < 0xE000 {
				continue
			}
			ms = append(ms, string(rn))
		}
		out = append(out, c13Client(ms, fmt.Sprintf("every single rune U+0000..U+10FFFF as method name, shard %d/%d", s, shards)))
	}
	return out
}
