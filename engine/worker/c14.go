package main

import (
	"context"
	"encoding/json"
	"errors"
	"fmt"
	"math"
	"reflect"

	"github.com/creachadair/jrpc2"
	"github.com/creachadair/jrpc2/channel"
	"verif/vs"
)

// C14 — errors keep their code, message and data from handler to caller.

func init() { register("C14", c14Scenarios) }

type myCoder struct{ c jrpc2.Code }

func (m myCoder) Error() string       { return fmt.Sprintf("coder %d", m.c) }
func (m myCoder) ErrCode() jrpc2.Code { return m.c }

type wrapCoder struct {
	c     jrpc2.Code
	inner error
}

func (w wrapCoder) Error() string       { return "wrapcoder: " + w.inner.Error() }
func (w wrapCoder) ErrCode() jrpc2.Code { return w.c }
func (w wrapCoder) Unwrap() error       { return w.inner }

type plainWrap struct{ inner error }

func (p plainWrap) Error() string { return "plainwrap: " + p.inner.Error() }
func (p plainWrap) Unwrap() error { return p.inner }

type badMarshal struct{}

func (badMarshal) MarshalJSON() ([]byte, error) { return nil, errors.New("cannot marshal") }

var c14Codes = func() []jrpc2.Code {
	named := []jrpc2.Code{jrpc2.ParseError, jrpc2.InvalidRequest, jrpc2.MethodNotFound, jrpc2.InvalidParams, jrpc2.InternalError,
		jrpc2.NoError, jrpc2.SystemError, jrpc2.Cancelled, jrpc2.DeadlineExceeded}
	seen := map[jrpc2.Code]bool{}
	var out []jrpc2.Code
	add := func(c jrpc2.Code) {
		if !seen[c] {
			seen[c] = true
			out = append(out, c)
		}
	}
	for _, c := range named {
		add(c - 1)
		add(c)
		add(c + 1)
	}
	for _, c := range []jrpc2.Code{0, 1, -1, math.MinInt32, math.MaxInt32, 77} {
		add(c)
	}
	return out
}()

func wrappers() []struct {
	Name string
	F    func(error) error
} {
	return []struct {
		Name string
		F    func(error) error
	}{
		{"direct", func(e error) error { return e }},
		{"%w", func(e error) error { return fmt.Errorf("ctx: %w", e) }},
		{"%w%w", func(e error) error { return fmt.Errorf("outer: %w", fmt.Errorf("inner: %w", e)) }},
		{"join(e,plain)", func(e error) error { return errors.Join(e, errors.New("other")) }},
		{"join(plain,e)", func(e error) error { return errors.Join(errors.New("other"), e) }},
		{"unwrap", func(e error) error { return plainWrap{e} }},
		{"unwrap(%w)", func(e error) error { return plainWrap{fmt.Errorf("w: %w", e)} }},
	}
}

type c14Case struct {
	Desc    string
	Err     error
	Kind    string // error, coder, sentinel, plain
	Result  any
	IsValue bool // a result value (possibly unmarshalable) instead of an error
}

func c14Cases() []c14Case {
	var out []c14Case
	msgs := []string{"", "m", "é\n\"x"}
	datas := []string{"", "null", "0", `"s"`, "[1]", `{"a":[]}`}
	for _, c := range c14Codes {
		for _, m := range msgs {
			for _, d := range datas {
				e := &jrpc2.Error{Code: c, Message: m}
				if d != "" {
					e.Data = json.RawMessage(d)
				}
				out = append(out, c14Case{Desc: fmt.Sprintf("*Error{%d,%q,data=%s}", c, m, d), Err: e, Kind: "error"})
			}
		}
	}
	for _, c := range c14Codes {
		bases := []struct {
			n string
			e error
		}{
			{"Errorf", jrpc2.Errorf(c, "f%d", 1)},
			{"Code.Err", c.Err()},
			{"custom coder", myCoder{c}},
			{"coder wrapping plain", wrapCoder{c, errors.New("in")}},
			{"coder wrapping Canceled", wrapCoder{c, context.Canceled}},
			{"*Error", &jrpc2.Error{Code: c, Message: "wrapped", Data: json.RawMessage(`[1]`)}},
			{"coder wrapping *Error(404)", wrapCoder{c, &jrpc2.Error{Code: 404, Message: "inner", Data: json.RawMessage(`{"in":1}`)}}},
			{"Code.Err joined by %w%w with *Error(404)", fmt.Errorf("%w (cause: %w)", myCoder{c}, &jrpc2.Error{Code: 404, Message: "inner"})},
			{"*Error(404) inside coder inside %w", fmt.Errorf("outer: %w", wrapCoder{c, fmt.Errorf("mid: %w", &jrpc2.Error{Code: 404, Message: "inner"})})},
		}
		for _, b := range bases {
			if b.e == nil {
				continue
			}
			for _, w := range wrappers() {
				if b.n == "*Error" && w.Name == "direct" {
					continue
				}
				out = append(out, c14Case{Desc: fmt.Sprintf("%s(%d) via %s", b.n, c, w.Name), Err: w.F(b.e), Kind: "coder"})
			}
		}
	}
	for _, s := range []error{context.Canceled, context.DeadlineExceeded} {
		for _, w := range wrappers() {
			out = append(out, c14Case{Desc: fmt.Sprintf("%v via %s", s, w.Name), Err: w.F(s), Kind: "sentinel"})
		}
	}
	for _, w := range wrappers() {
		out = append(out, c14Case{Desc: "errors.New via " + w.Name, Err: w.F(errors.New("plain failure")), Kind: "plain"})
	}
	// messages and data strings with every code point up to U+00FF, separators and astral non-printable runes
	var exotic []string
	for cp := rune(1); cp <= 0xff; cp++ {
		exotic = append(exotic, string(cp))
	}
	exotic = append(exotic, "\u2028", "\u2029", "\U000e0001", "\ufffe", "\x1b[31mred\x1b[0m", "a\x00b")
	for i, x := range exotic {
		m := "a" + x + "b"
		out = append(out, c14Case{Desc: fmt.Sprintf("*Error{7,%q}", m), Err: &jrpc2.Error{Code: 7, Message: m}, Kind: "error"})
		if i%8 == 0 {
			out = append(out, c14Case{Desc: fmt.Sprintf("errors.New(%q)", m), Err: errors.New(m), Kind: "plain"})
			out = append(out, c14Case{Desc: fmt.Sprintf("Errorf(9,%q)", m), Err: jrpc2.Errorf(9, "%s", m), Kind: "coder"})
			d, _ := json.Marshal(m)
			out = append(out, c14Case{Desc: fmt.Sprintf("*Error{7,m,data=%s}", d), Err: &jrpc2.Error{Code: 7, Message: "m", Data: d}, Kind: "error"})
		}
	}
	out = append(out, c14Case{Desc: "*Error{7,\"after\"} (the client must still be usable)", Err: &jrpc2.Error{Code: 7, Message: "after"}, Kind: "error"})
	defer func() {}()
	for _, v := range []struct {
		n string
		v any
	}{{"chan", make(chan int)}, {"func", func() {}}, {"NaN", math.NaN()}, {"+Inf", math.Inf(1)}, {"Marshaler error", badMarshal{}},
		{"map with func", map[string]any{"f": func() {}}}, {"nested NaN", []any{1, []float64{math.NaN()}}},
		{"truncated RawMessage", json.RawMessage(`{"truncated":`)}, {"non-JSON RawMessage", json.RawMessage(`not json`)},
		{"RawMessage with trailing data", json.RawMessage(`{} trailing`)}, {"unbalanced RawMessage", json.RawMessage(`[1,2`)},
		{"nested bad RawMessage", map[string]any{"r": json.RawMessage(`{"x":`)}}} {
		out = append(out, c14Case{Desc: "unmarshalable result " + v.n, Result: v.v, IsValue: true})
		out = append(out, c14Case{Desc: "*Error{8,\"after " + v.n + "\"} (the client must still be usable)", Err: &jrpc2.Error{Code: 8, Message: "after " + v.n}, Kind: "error"})
	}
	return out
}

func c14RoundTrip() *Scenario { return c14RoundTripM(false, "call") }

func c14RoundTripX(selfCancel bool) *Scenario { return c14RoundTripM(selfCancel, "call") }

// selfCancel: the handler's own request context has already been cancelled on the server side
// (CancelRequest for its id) when it returns: what it returns is still what the caller must get.
//
// mode "call": one Client.Call per case. mode "batch": the case is member 0, 1 or 2 of a batch of three
// whose other members succeed (the caller looks at that member's Response). mode "callback": the other
// direction - the client's OnCallback handler returns the case and Server.Callback is the caller.
func c14RoundTripM(selfCancel bool, mode string) *Scenario {
	name := "handler errors and results through a real Server/Client pair"
	if selfCancel {
		name += " (request cancelled on the server before the handler returns)"
	}
	if mode == "batch" {
		name += " (as member 0, 1 or 2 of a batch of three)"
	}
	if mode == "callback" {
		name += " (callback direction: OnCallback handler to Server.Callback)"
	}
	return &Scenario{
		Name:   name,
		Params: map[string]any{"codes": c14Codes, "wrappers": 7, "cases": len(c14Cases()), "cancelled_before_return": selfCancel},
		Seq: func(r *SeqRun) {
			cases := c14Cases()
			for start := 0; start < len(cases); start += 250 {
				if r.Expired() {
					return
				}
				end := start + 250
				if end > len(cases) {
					end = len(cases)
				}
				chunk := cases[start:end]
				got := make([]error, len(chunk))
				gotRsp := make([]bool, len(chunk))
				returned := make([]bool, len(chunk))
				unmOK := make([]bool, len(chunk)) // batch mode: UnmarshalResult succeeded on a member that carries an error
				x := vs.Run(nil, func() {
					cch, sch := channel.Direct()
					idx := 0
					hd := func(ctx context.Context, req *jrpc2.Request) (any, error) {
						c := chunk[idx]
						if req.Method() == "ok" {
							return "fine", nil
						}
						if selfCancel {
							jrpc2.ServerFromContext(ctx).CancelRequest(req.ID())
						}
						if c.IsValue {
							return c.Result, nil
						}
						return nil, c.Err
					}
					srv := jrpc2.NewServer(anyAssigner{hd}, &jrpc2.ServerOptions{AllowPush: mode == "callback", Concurrency: 3}).Start(sch)
					cli := jrpc2.NewClient(cch, &jrpc2.ClientOptions{OnCallback: func(ctx context.Context, req *jrpc2.Request) (any, error) {
						c := chunk[idx]
						if c.IsValue {
							return c.Result, nil
						}
						return nil, c.Err
					}})
					for i := range chunk {
						idx = i
						switch mode {
						case "batch":
							pos := i % 3
							specs := []jrpc2.Spec{{Method: "ok"}, {Method: "ok"}, {Method: "ok"}}
							specs[pos].Method = "m"
							rsps, err := cli.Batch(context.Background(), specs)
							returned[i] = true
							if err != nil || len(rsps) != 3 {
								got[i] = fmt.Errorf("Batch failed: %v (%d responses)", err, len(rsps))
								continue
							}
							gotRsp[i] = true
							if e := rsps[pos].Error(); e != nil {
								got[i] = e
								var raw json.RawMessage
								unmOK[i] = rsps[pos].UnmarshalResult(&raw) == nil
							}
						case "callback":
							rsp, err := srv.Callback(context.Background(), "cb", nil)
							got[i], gotRsp[i], returned[i] = err, rsp != nil, true
						default:
							rsp, err := cli.Call(context.Background(), "m", nil)
							got[i], gotRsp[i], returned[i] = err, rsp != nil, true
						}
					}
					cli.Close()
					srv.WaitStatus()
				})
				r.Calls(x.Steps)
				if x.Outcome != "ok" {
					r.Fail("G1", fmt.Sprintf("cases %d..%d", start, end), "run ended with "+x.Outcome+" "+firstLine(x.Detail)+" "+panicSite(x.Stack), "")
					continue
				}
				for i, c := range chunk {
					if !returned[i] {
						r.Fail("C14.R4", c.Desc, "the call never returned", "")
						continue
					}
					cerr := got[i]
					if unmOK[i] {
						r.Fail("C14.R1", c.Desc, "the batch member carries an error, but Response.UnmarshalResult reported success", "")
					}
					if c.IsValue {
						Hit("C14.R4")
						r.Case("unmarshalable", true)
						if cerr == nil {
							r.Fail("C14.R4", c.Desc, "an unmarshalable result did not become an error response", "")
						}
						continue
					}
					want := jrpc2.ErrorCode(c.Err)
					if ref := refErrorCode(c.Err); ref != want {
						r.Fail("C14.R1", c.Desc, fmt.Sprintf("ErrorCode of the handler's error is %d; by its documented definition it is %d", want, ref), "")
						want = ref
					}
					r.Case(fmt.Sprintf("%s/%d", c.Kind, classCode(want)), true)
					if cerr == nil {
						r.Fail("C14.R1", c.Desc, "handler error arrived as success", "")
						continue
					}
					outOfDomain := false
					if want == jrpc2.NoError {
						outOfDomain = true // a coder reporting NoError: the statement is self-referential here
					}
					if e, ok := c.Err.(*jrpc2.Error); ok && (e.Code == jrpc2.Cancelled || e.Code == jrpc2.DeadlineExceeded) {
						outOfDomain = true // an *Error carrying a context code arrives as the sentinel
					}
					Hit("C14.R1")
					if gotc := jrpc2.ErrorCode(cerr); gotc != want && !outOfDomain {
						r.Fail("C14.R1", c.Desc, fmt.Sprintf("ErrorCode at the client %d, ErrorCode of the handler's error %d", gotc, want), "")
					}
					if c.Kind == "error" && !outOfDomain {
						Hit("C14.R2")
						he := c.Err.(*jrpc2.Error)
						ce, ok := cerr.(*jrpc2.Error)
						if !ok {
							r.Fail("C14.R2", c.Desc, fmt.Sprintf("client error has type %T, want *jrpc2.Error", cerr), "")
						} else {
							dataOK := (len(he.Data) == 0 && len(ce.Data) == 0) || jsonEqual(he.Data, ce.Data)
							if ce.Code != he.Code || ce.Message != he.Message || !dataOK {
								r.Fail("C14.R2", c.Desc, fmt.Sprintf("arrived as {%d,%q,%s}", ce.Code, ce.Message, ce.Data), "")
							}
						}
					}
					if (want == jrpc2.Cancelled || want == jrpc2.DeadlineExceeded) && mode == "call" {
						Hit("C14.R3")
						sentinel := context.Canceled
						if want == jrpc2.DeadlineExceeded {
							sentinel = context.DeadlineExceeded
						}
						if cerr != sentinel {
							r.Fail("C14.R3", c.Desc, fmt.Sprintf("must surface as exactly %v, got %T %v", sentinel, cerr, cerr), "")
						}
					}
				}
			}
			r.Sample(map[string]any{"handler_error": `fmt.Errorf("ctx: %w", &jrpc2.Error{Code: -32602, Message: "wrapped", Data: [1]})`, "observed_at": "Client.Call"})
		},
	}
}

// refErrorCode is the documented definition of ErrorCode, written independently: nil -> NoError;
// is or wraps an ErrCoder -> its code; context.Canceled -> Cancelled; context.DeadlineExceeded ->
// DeadlineExceeded; otherwise SystemError (in this order).
func refErrorCode(err error) jrpc2.Code {
	if err == nil {
		return jrpc2.NoError
	}
	if c, ok := findCoder(err); ok {
		return c
	}
	if errors.Is(err, context.Canceled) {
		return jrpc2.Cancelled
	}
	if errors.Is(err, context.DeadlineExceeded) {
		return jrpc2.DeadlineExceeded
	}
	return jrpc2.SystemError
}

// findCoder walks the error tree in the order errors.As does (depth first, Unwrap() []error in order).
func findCoder(err error) (jrpc2.Code, bool) {
	for err != nil {
		if c, ok := err.(jrpc2.ErrCoder); ok {
			return c.ErrCode(), true
		}
		switch u := err.(type) {
		case interface{ Unwrap() error }:
			err = u.Unwrap()
		case interface{ Unwrap() []error }:
			for _, e := range u.Unwrap() {
				if c, ok := findCoder(e); ok {
					return c, true
				}
			}
			return 0, false
		default:
			return 0, false
		}
	}
	return 0, false
}

func classCode(c jrpc2.Code) int {
	switch {
	case c >= -32700 && c <= -32600:
		return 1
	case c >= -32099 && c <= -32000:
		return 2
	case c == 0:
		return 0
	}
	return 3
}

// c14Codes: ErrorCode(c.Err()) == c for every code c other than NoError in [lo, hi].
func c14CodeRange(lo, hi int64, label string) *Scenario {
	return &Scenario{
		Name:   "ErrorCode(c.Err()) == c for " + label,
		Params: map[string]any{"from": lo, "to": hi},
		Seq: func(r *SeqRun) {
			n := 0
			for c := lo; c <= hi; c++ {
				code := jrpc2.Code(c)
				if code == jrpc2.NoError {
					if code.Err() != nil {
						r.Fail("C14.R5", fmt.Sprint(c), "NoError.Err() must be nil", "")
					}
					continue
				}
				err := code.Err()
				if err == nil || jrpc2.ErrorCode(err) != code {
					r.Fail("C14.R5", fmt.Sprint(c), fmt.Sprintf("ErrorCode(Code(%d).Err()) = %d", c, jrpc2.ErrorCode(err)), "")
				}
				n++
				if n&0xfffff == 0 && r.Expired() {
					return
				}
			}
			Hit("C14.R5")
			r.res.Execs += n
			r.res.Nodes += n
			r.res.Steps += 2 * n
			r.Case("codes-negative", true)
			r.Case("codes-positive", true)
			r.Case("codes-std-range", true)
			r.Sample(map[string]any{"code": lo, "check": "ErrorCode(Code(c).Err()) == c"})
		},
	}
}

// c14WithData: WithData never modifies its receiver.
func c14WithData() *Scenario {
	return &Scenario{
		Name: "Error.WithData leaves the receiver unchanged",
		Seq: func(r *SeqRun) {
			datas := []any{nil, 0, "s", []int{1}, map[string]any{"a": []any{}}, json.RawMessage("null"), make(chan int), func() {}, math.NaN(), badMarshal{}}
			for _, c := range c14Codes {
				for _, old := range []string{"", "[0]"} {
					for _, d := range datas {
						e := &jrpc2.Error{Code: c, Message: "m"}
						if old != "" {
							e.Data = json.RawMessage(old)
						}
						before := *e
						before.Data = append(json.RawMessage(nil), e.Data...)
						var out *jrpc2.Error
						p := guarded(func() { out = e.WithData(d) })
						r.Calls(1)
						Hit("C14.R6")
						r.Case(fmt.Sprintf("withdata/%T/%v", d, old != ""), true)
						if p != "" {
							r.Fail("G1", fmt.Sprintf("WithData(%T)", d), "panic: "+p, "")
							continue
						}
						if e.Code != before.Code || e.Message != before.Message || !reflect.DeepEqual([]byte(e.Data), []byte(before.Data)) {
							r.Fail("C14.R6", fmt.Sprintf("(*Error{%d}).WithData(%T)", c, d), "receiver was modified", "")
						}
						if out == nil || out.Code != c || out.Message != "m" {
							r.Fail("C14.R6", fmt.Sprintf("WithData(%T)", d), "result lost code or message", "")
						}
					}
				}
			}
			r.Sample(map[string]any{"receiver": "&Error{Code:-32602,Message:\"m\",Data:[0]}", "data": "chan int (unmarshalable)"})
		},
	}
}

func c14Scenarios(tier string) []*Scenario {
	out := []*Scenario{c14RoundTrip(), c14RoundTripX(true), c14RoundTripM(false, "batch"), c14RoundTripM(false, "callback"), c14WithData()}
	if tier == "quick" {
		out = append(out,
			c14CodeRange(-70000, 70000, "all c in [-70000, 70000]"),
			c14CodeRange(math.MinInt32, math.MinInt32+2000, "the 2000 lowest int32 codes"),
			c14CodeRange(math.MaxInt32-2000, math.MaxInt32, "the 2000 highest int32 codes"))
		return out
	}
	const shards = 32
	span := (int64(math.MaxInt32) - int64(math.MinInt32) + 1) / shards
	for s := int64(0); s < shards; s++ {
		lo := int64(math.MinInt32) + s*span
		out = append(out, c14CodeRange(lo, lo+span-1, fmt.Sprintf("every int32 code, shard %d/%d", s, shards)))
	}
	return out
}
