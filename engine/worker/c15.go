package main

import (
	"bytes"
	"context"
	"encoding/json"
	"errors"
	"fmt"
	"reflect"
	"strings"
	"time"

	"github.com/creachadair/jrpc2"
	"github.com/creachadair/jrpc2/handler"
)

// C15 / C16 — handler.New/Check and Positional/Args/Obj: the function gets exactly
// the decoded params or is not called. Function types are generated with
// reflect.FuncOf / reflect.MakeFunc from a grammar of parameter and result kinds.

func init() {
	register("C15", c15Scenarios)
	register("C16", c16Scenarios)
}

type P1 struct {
	A int
	B string
}
type P2 struct {
	A int    `json:"x"`
	B string `json:"y,omitempty"`
}
type P3 struct {
	A    int
	Skip int `json:"-"`
	B    string
}
type Inner struct{ A int }
type P4 struct {
	Inner
	C int
}
type P5 struct {
	Inner `json:"in"`
	C     int
}
type P6 struct {
	a int
	B string
}
type P7 struct {
	N P1
	P *P1
	L []int
}
type P8 struct{ A int }

func (*P8) DisallowUnknownFields() {}

type P9 struct {
	A *int
	M map[string]int
}

type P11 struct {
	Lo   int
	Dash int `json:"-,"` // the JSON key is "-": NOT omitted (only the bare tag "-" omits a field)
	Hi   int `json:"hi,omitempty"`
}

// P12 is strict by itself and has a nested struct: unknown keys are refused at every depth.
type P12 struct {
	N P1
	K int
}

func (P12) DisallowUnknownFields() {}

type P13 struct {
	I int64
	U uint64
	F json.Number
}

type NS string

type P10 struct {
	R json.RawMessage
	O Opt
	N int
}

var (
	tCtx = reflect.TypeOf((*context.Context)(nil)).Elem()
	tErr = reflect.TypeOf((*error)(nil)).Elem()
	tAny = reflect.TypeOf((*any)(nil)).Elem()
	tReq = reflect.TypeOf((*jrpc2.Request)(nil))
)

type argType struct {
	Name  string
	T     reflect.Type
	Names []string // documented positional field names for struct / pointer-to-struct types
}

func c15ArgTypes() []argType {
	st := func(name string, v any, names ...string) []argType {
		t := reflect.TypeOf(v)
		return []argType{{name, t, names}, {"*" + name, reflect.PointerTo(t), names}}
	}
	out := []argType{
		{"int", reflect.TypeOf(0), nil}, {"string", reflect.TypeOf(""), nil}, {"bool", reflect.TypeOf(true), nil},
		{"float64", reflect.TypeOf(0.0), nil}, {"[]int", reflect.TypeOf([]int(nil)), nil}, {"map[string]int", reflect.TypeOf(map[string]int(nil)), nil},
		{"[2]int", reflect.TypeOf([2]int{}), nil}, {"any", tAny, nil}, {"json.RawMessage", reflect.TypeOf(json.RawMessage(nil)), nil},
		{"*int", reflect.TypeOf((*int)(nil)), nil},
		{"NS (named string)", reflect.TypeOf(NS("")), nil}, {"time.Duration", reflect.TypeOf(time.Duration(0)), nil},
		{"[]P1", reflect.TypeOf([]P1(nil)), nil}, {"[1]P1", reflect.TypeOf([1]P1{}), nil}, {"map[string]P1", reflect.TypeOf(map[string]P1(nil)), nil},
		{"*[]P1", reflect.TypeOf((*[]P1)(nil)), nil}, {"[]*P1", reflect.TypeOf([]*P1(nil)), nil},
	}
	out = append(out, st("P1", P1{}, "A", "B")...)
	out = append(out, st("P2", P2{}, "x", "y")...)
	out = append(out, st("P3", P3{}, "A", "B")...)
	out = append(out, st("P4", P4{}, "C")...)
	out = append(out, st("P5", P5{}, "in", "C")...)
	out = append(out, st("P6", P6{}, "B")...)
	out = append(out, st("P7", P7{}, "N", "P", "L")...)
	out = append(out, st("P8", P8{}, "A")...)
	out = append(out, st("P9", P9{}, "A", "M")...)
	out = append(out, st("P10", P10{}, "R", "O", "N")...)
	out = append(out, st("P11", P11{}, "Lo", "-", "hi")...)
	out = append(out, st("P12", P12{}, "N", "K")...)
	out = append(out, st("P13", P13{}, "I", "U", "F")...)
	out = append(out, argType{"**P1", reflect.PointerTo(reflect.PointerTo(reflect.TypeOf(P1{}))), nil})
	return out
}

type resScheme struct {
	Name string
	Outs []reflect.Type
}

func c15ResSchemes() []resScheme {
	return []resScheme{
		{"error", []reflect.Type{tErr}},
		{"int", []reflect.Type{reflect.TypeOf(0)}},
		{"(string,error)", []reflect.Type{reflect.TypeOf(""), tErr}},
		{"(any,error)", []reflect.Type{tAny, tErr}},
		{"(P1,error)", []reflect.Type{reflect.TypeOf(P1{}), tErr}},
	}
}

var errPrescribed = errors.New("prescribed failure")

// mkFunc builds a function of the given shape that records its calls and returns prescribed values.
type recorder struct {
	calls int
	args  []reflect.Value
	fail  bool
}

func mkFunc(ins, outs []reflect.Type, rec *recorder) any {
	ft := reflect.FuncOf(ins, outs, false)
	return reflect.MakeFunc(ft, func(args []reflect.Value) []reflect.Value {
		rec.calls++
		rec.args = args[1:]
		res := make([]reflect.Value, len(outs))
		for i, o := range outs {
			if o == tErr {
				if rec.fail {
					res[i] = reflect.ValueOf(&errPrescribed).Elem()
				} else {
					res[i] = reflect.Zero(tErr)
				}
				continue
			}
			res[i] = prescribed(o)
		}
		return res
	}).Interface()
}

func prescribed(t reflect.Type) reflect.Value {
	switch t.Kind() {
	case reflect.Int:
		return reflect.ValueOf(4242)
	case reflect.String:
		return reflect.ValueOf("prescribed")
	case reflect.Interface:
		v := reflect.New(t).Elem()
		v.Set(reflect.ValueOf(map[string]int{"prescribed": 1}))
		return v
	case reflect.Struct:
		return reflect.ValueOf(P1{A: 7, B: "prescribed"})
	}
	return reflect.Zero(t)
}

func mkRequest(params string) *jrpc2.Request {
	if params == "" {
		prs, _ := jrpc2.ParseRequests([]byte(`{"jsonrpc":"2.0","id":1,"method":"m"}`))
		return prs[0].ToRequest()
	}
	if fb := strings.TrimSpace(params)[0]; fb == '{' || fb == '[' {
		prs, err := jrpc2.ParseRequests([]byte(`{"jsonrpc":"2.0","id":1,"method":"m","params":` + params + `}`))
		if err == nil && len(prs) == 1 && prs[0].Error == nil {
			return prs[0].ToRequest()
		}
	}
	return (&jrpc2.ParsedRequest{ID: "1", Method: "m", Params: json.RawMessage(params)}).ToRequest()
}

// refDecode is the documented behaviour: translate an array to the object form by the field-order
// rule (struct parameters, when allowed), then decode with encoding/json into a fresh value of the
// declared type, rejecting unknown fields when strict checking applies.
func refDecode(at argType, params string, strict, allowArray bool) (reflect.Value, bool) {
	ptr := reflect.New(at.T)
	if params == "" {
		return ptr.Elem(), true
	}
	data := []byte(params)
	isStruct := at.Names != nil
	if isStruct && allowArray && len(at.Names) > 0 && strings.TrimSpace(params)[0] == '[' {
		var arr []json.RawMessage
		if json.Unmarshal(data, &arr) != nil || len(arr) != len(at.Names) {
			return reflect.Value{}, false
		}
		obj := map[string]json.RawMessage{}
		for i, n := range at.Names {
			obj[n] = arr[i]
		}
		data, _ = json.Marshal(obj)
	}
	hasMethod := reflect.PointerTo(at.T).Implements(reflect.TypeOf((*interface{ DisallowUnknownFields() })(nil)).Elem()) ||
		at.T.Implements(reflect.TypeOf((*interface{ DisallowUnknownFields() })(nil)).Elem())
	dec := json.NewDecoder(bytes.NewReader(data))
	if strict || hasMethod {
		dec.DisallowUnknownFields()
	}
	if err := dec.Decode(ptr.Interface()); err != nil {
		return reflect.Value{}, false
	}
	return ptr.Elem(), true
}

func deref(v reflect.Value) any {
	for v.IsValid() && v.Kind() == reflect.Ptr && !v.IsNil() {
		v = v.Elem()
	}
	if !v.IsValid() {
		return nil
	}
	return v.Interface()
}

func c15ParamsFor(at argType) []string {
	ps := []string{"", "null", "{}", "[]", "[1]", `[1,"s"]`, `[1,"s",3]`, `["s",1]`, `[null,null]`, `[null]`, "5", `"s"`, "true",
		`{"A":1,"B":"s"}`, `{"a":1,"b":"s"}`, `{"A":1,"Z":9}`, `{"A":"wrong"}`, `{"x":1,"y":"s"}`, `{"X":1}`, `{"C":3,"A":1}`, `{"in":{"A":1},"C":2}`,
		`{"B":"s","a":5}`, `{"N":{"A":1,"B":"b"},"P":{"A":2},"L":[1,2]}`, `[{"A":1},null,[3]]`, `{"A":7,"M":{"k":1}}`, `[7,{"k":1}]`, `[1,2]`, `{"k":1}`, `[[1]]`, `{"Skip":1,"A":1}`,
		`[null,null,1]`, `[{"k":1},5,1]`, `[1,2,3]`, `[7,9]`, `{"Lo":1,"-":2,"hi":3}`, `{"R":null,"O":null,"N":1}`, `[null,"s",1]`,
		// unknown keys below the top level, in both notations
		`[{"A":1,"Zz":9},null,[3]]`, `{"N":{"A":1,"Zz":9}}`, `[{"A":1,"Zz":9},2]`, `{"N":{"A":1,"Zz":9},"K":2}`, `[{"A":1},2]`, `[7,{"k":1,"k2":2}]`,
		// values whose spelling must survive the array translation
		`[9007199254740993,"s"]`, `{"A":9007199254740993,"B":"s"}`, `[9007199254740993,18446744073709551615,1.10]`, `{"I":-9007199254740993,"U":18446744073709551615,"F":1e2}`, `[{"k":1.50,"a":[1e2]},5,1]`,
		// containers of structs: unknown keys inside the elements
		`[{"A":1,"B":"x"}]`, `[{"A":1,"B":"x","Zz":true}]`, `{"k":{"A":1}}`, `{"k":{"A":1,"Zz":2}}`, `[{"A":1},{"Zz":2}]`, `[null]`, `"named"`, `1500000000`}
	return ps
}

func c15Accept(quick bool) *Scenario {
	return &Scenario{
		Name:   "accepted signatures x SetStrict x AllowArray x params",
		Params: map[string]any{"arg_types": len(c15ArgTypes()) + 2, "result_schemes": len(c15ResSchemes())},
		Seq: func(r *SeqRun) {
			ats := c15ArgTypes()
			for _, rs := range c15ResSchemes() {
				for _, fail := range []bool{false, true} {
					hasErr := rs.Outs[len(rs.Outs)-1] == tErr
					if fail && !hasErr {
						continue
					}
					// func(ctx) ...
					{
						rec := &recorder{fail: fail}
						fn := mkFunc([]reflect.Type{tCtx}, rs.Outs, rec)
						fi, err := handler.Check(fn)
						Hit("C15.R1")
						if err != nil {
							r.Fail("C15.R1", "func(ctx) "+rs.Name, "documented signature rejected: "+err.Error(), "")
						} else {
							for _, ps := range []string{"", "[]", "{}", "[1]", `{"a":1}`, "5"} {
								// the options are about decoding an argument; set on a function without one they change nothing
								opt := ""
								var h jrpc2.Handler
								if pw := guarded(func() {
									switch len(ps) % 3 {
									case 1:
										opt = " after SetStrict(true)"
										fi.SetStrict(true)
									case 2:
										opt = " after SetStrict(true).AllowArray(false)"
										fi.SetStrict(true).AllowArray(false)
									}
									h = fi.Wrap()
								}); pw != "" {
									r.Fail("C15.R6", "func(ctx) "+rs.Name+opt, "Wrap panicked: "+pw, "")
									continue
								}
								rec.calls = 0
								var res any
								var herr error
								p := guarded(func() { res, herr = h(context.Background(), mkRequest(ps)) })
								r.Calls(1)
								r.Case(fmt.Sprintf("noarg/%v/%s", ps == "", rs.Name), ps != "")
								c15JudgeCall(r, "func(ctx) "+rs.Name+" params "+ps, p, rec, ps == "", res, herr, rs, fail, reflect.Value{}, false)
							}
						}
					}
					// func(ctx, *jrpc2.Request) ...
					{
						rec := &recorder{fail: fail}
						fn := mkFunc([]reflect.Type{tCtx, tReq}, rs.Outs, rec)
						fi, err := handler.Check(fn)
						if err != nil {
							r.Fail("C15.R1", "func(ctx,*Request) "+rs.Name, "documented signature rejected: "+err.Error(), "")
						} else {
							for _, ps := range []string{"", "[1]", `{"a":1}`, "5"} {
								req := mkRequest(ps)
								rec.calls = 0
								var res any
								var herr error
								p := guarded(func() {
									if len(ps) == 3 {
										fi.SetStrict(true).AllowArray(false)
									}
									res, herr = fi.Wrap()(context.Background(), req)
								})
								r.Calls(1)
								r.Case("reqarg/"+rs.Name, true)
								c15JudgeCall(r, "func(ctx,*Request) "+rs.Name+" params "+ps, p, rec, true, res, herr, rs, fail, reflect.Value{}, false)
								if rec.calls == 1 && rec.args[0].Interface().(*jrpc2.Request) != req {
									r.Fail("C15.R3", "func(ctx,*Request)", "the function did not receive the request itself", "")
								}
							}
						}
					}
					for _, at := range ats {
						if quick && fail && at.Names == nil {
							continue
						}
						rec := &recorder{fail: fail}
						fn := mkFunc([]reflect.Type{tCtx, at.T}, rs.Outs, rec)
						fi, err := handler.Check(fn)
						if err != nil {
							r.Fail("C15.R1", fmt.Sprintf("func(ctx,%s) %s", at.Name, rs.Name), "documented signature rejected: "+err.Error(), "")
							continue
						}
						for _, strict := range []bool{false, true} {
							for _, aa := range []string{"default", "false", "true"} {
								fi2, _ := handler.Check(fn)
								fi2.SetStrict(strict)
								allowArray := true
								if aa == "false" {
									fi2.AllowArray(false)
									allowArray = false
								} else if aa == "true" {
									fi2.AllowArray(true)
								}
								h := fi2.Wrap()
								// later changes to the FuncInfo (and another Wrap) must not reach the handler already built
								fi2.SetStrict(!strict)
								fi2.AllowArray(!allowArray)
								_ = fi2.Wrap()
								for _, ps := range c15ParamsFor(at) {
									rec.calls = 0
									rec.args = nil
									var res any
									var herr error
									p := guarded(func() { res, herr = h(context.Background(), mkRequest(ps)) })
									r.Calls(1)
									want, ok := refDecode(at, ps, strict, allowArray)
									desc := fmt.Sprintf("func(ctx,%s) %s strict=%v allowArray=%s params %s", at.Name, rs.Name, strict, aa, ps)
									r.Case(fmt.Sprintf("%s/strict%v/aa%s/ok%v", at.Name, strict, aa, ok), !ok || ps != "")
									c15JudgeCall(r, desc, p, rec, ok, res, herr, rs, fail, want, ps != "" && ps != "null")
								}
							}
						}
						_ = fi
					}
					if r.Expired() {
						return
					}
				}
			}
			r.Sample(map[string]any{"signature": "func(context.Context, *P2) (string, error)", "strict": true, "allow_array": "default", "params": `[1,"s"]`})
		},
	}
}

// c15JudgeCall applies R2-R6 to one wrapper invocation.
func c15JudgeCall(r *SeqRun, desc, panicked string, rec *recorder, wantCall bool, res any, herr error, rs resScheme, fail bool, want reflect.Value, compareArg bool) {
	Hit("C15.R6")
	if panicked != "" {
		r.Fail("C15.R6", desc, "the wrapper panicked: "+panicked, "")
		return
	}
	Hit("C15.R2")
	if wantCall {
		if rec.calls != 1 {
			r.Fail("C15.R2", desc, fmt.Sprintf("params decode by the documented rules, but the function was called %d times (error %v)", rec.calls, herr), "")
			return
		}
		if compareArg && want.IsValid() && len(rec.args) == 1 {
			Hit("C15.R3")
			if !reflect.DeepEqual(deref(rec.args[0]), deref(want)) {
				r.Fail("C15.R3", desc, fmt.Sprintf("the function received %#v, encoding/json decodes %#v", deref(rec.args[0]), deref(want)), "")
			}
		}
		Hit("C15.R4")
		hasErr := rs.Outs[len(rs.Outs)-1] == tErr
		if fail {
			if herr != errPrescribed {
				r.Fail("C15.R4", desc, fmt.Sprintf("the function's error was not returned unchanged: %v", herr), "")
			}
		} else {
			if herr != nil {
				r.Fail("C15.R4", desc, fmt.Sprintf("unexpected error %v", herr), "")
			}
			if len(rs.Outs) == 2 || !hasErr {
				if !reflect.DeepEqual(res, prescribed(rs.Outs[0]).Interface()) {
					r.Fail("C15.R4", desc, fmt.Sprintf("the function's result was not returned unchanged: %#v", res), "")
				}
			} else if res != nil {
				r.Fail("C15.R4", desc, fmt.Sprintf("error-only function returned a result %#v", res), "")
			}
		}
		return
	}
	Hit("C15.R5")
	if rec.calls != 0 {
		r.Fail("C15.R2", desc, "params do not decode, but the function was called", "")
	}
	if herr == nil || jrpc2.ErrorCode(herr) != jrpc2.InvalidParams {
		r.Fail("C15.R5", desc, fmt.Sprintf("undecodable params must yield InvalidParams, got %v", herr), "")
	}
}

func c15Reject() *Scenario {
	return &Scenario{
		Name: "Check rejects every value outside the documented schemes",
		Seq: func(r *SeqRun) {
			tInt := reflect.TypeOf(0)
			bad := []struct {
				n string
				v any
			}{
				{"nil", nil}, {"int", 5}, {"string", "f"}, {"struct", P1{}}, {"nil func typed", (func())(nil)},
				{"func()", func() {}}, {"func() error", func() error { return nil }},
				{"func(int, ctx) error", func(int, context.Context) error { return nil }},
				{"func(int) error", func(int) error { return nil }},
				{"func(ctx, int, int) error", func(context.Context, int, int) error { return nil }},
				{"func(ctx, ...int) error", func(context.Context, ...int) error { return nil }},
				{"func(ctx)", func(context.Context) {}},
				{"func(ctx, int)", func(context.Context, int) {}},
				{"func(ctx) (int, int, error)", func(context.Context) (int, int, error) { return 0, 0, nil }},
				{"func(ctx) (int, int)", func(context.Context) (int, int) { return 0, 0 }},
				{"func(ctx) (error, int)", func(context.Context) (error, int) { return nil, 0 }},
				{"func(ctx, int) (int, string)", func(context.Context, int) (int, string) { return 0, "" }},
				{"chan", make(chan int)}, {"*func", new(func(context.Context) error)},
			}
			// generated: every (nin, nout) shape outside the grammar
			for nin := 0; nin <= 3; nin++ {
				for nout := 0; nout <= 3; nout++ {
					for _, ctxFirst := range []bool{true, false} {
						ins := []reflect.Type{}
						for i := 0; i < nin; i++ {
							ins = append(ins, tInt)
						}
						if ctxFirst && nin > 0 {
							ins[0] = tCtx
						}
						outs := []reflect.Type{}
						for i := 0; i < nout; i++ {
							outs = append(outs, tInt)
						}
						okShape := ctxFirst && nin >= 1 && nin <= 2 && nout == 1
						if okShape {
							continue
						}
						fn := reflect.MakeFunc(reflect.FuncOf(ins, outs, false), func([]reflect.Value) []reflect.Value { return nil }).Interface()
						bad = append(bad, struct {
							n string
							v any
						}{fmt.Sprintf("generated in=%d out=%d ctxFirst=%v", nin, nout, ctxFirst), fn})
					}
				}
			}
			for _, b := range bad {
				var err error
				p := guarded(func() { _, err = handler.Check(b.v) })
				r.Calls(1)
				r.Case("reject/"+strings.SplitN(b.n, " ", 2)[0], true)
				Hit("C15.R1")
				if p != "" {
					r.Fail("C15.R6", "Check("+b.n+")", "panic: "+p, "")
				} else if err == nil {
					r.Fail("C15.R1", "Check("+b.n+")", "a value outside the documented signature schemes was accepted", "")
				}
			}
			r.Sample(map[string]any{"value": "func(context.Context, ...int) error", "expect": "error"})
		},
	}
}

func c15Scenarios(tier string) []*Scenario {
	return []*Scenario{c15Accept(tier == "quick"), c15Reject()}
}
