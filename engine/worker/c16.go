package main

import (
	"context"
	"encoding/json"
	"fmt"
	"reflect"
	"strings"

	"github.com/creachadair/jrpc2"
	"github.com/creachadair/jrpc2/handler"
)

// C16 — handler.Positional / NewPos, Args and Obj.

type posKind struct {
	Name  string
	T     reflect.Type
	Good  []string // JSON texts that decode into the type
	Wrong string   // a JSON text that does not
}

func c16Kinds() []posKind {
	return []posKind{
		{"int", reflect.TypeOf(0), []string{"9007199254740993", "null"}, `"s"`}, // not representable as a float64
		{"string", reflect.TypeOf(""), []string{`"v"`, "null"}, "5"},
		{"bool", reflect.TypeOf(true), []string{"true", "null"}, "1"},
		{"[]int", reflect.TypeOf([]int(nil)), []string{"[1,2]", "null"}, `{"a":1}`},
		{"*int", reflect.TypeOf((*int)(nil)), []string{"3", "null"}, `"s"`},
		{"P1", reflect.TypeOf(P1{}), []string{`{"A":1,"B":"b"}`, "null"}, "[1]"},
		{"any", tAny, []string{`{"k":[1]}`, "null"}, ""},
		{"json.RawMessage", reflect.TypeOf(json.RawMessage(nil)), []string{`{"k":1.50,"a":[1e2]}`, "null"}, ""}, // the element text itself must arrive
		{"Opt", reflect.TypeOf(Opt{}), []string{"5", "null"}, `"s"`},
		{"uint64", reflect.TypeOf(uint64(0)), []string{"18446744073709551615", "null"}, "-1"},
		{"json.Number", reflect.TypeOf(json.Number("")), []string{"1.10", "null"}, "true"},
	}
}

// Opt is an optional integer: a type whose UnmarshalJSON distinguishes null from absent.
type Opt struct {
	Set, Null bool
	V         int
}

func (o *Opt) UnmarshalJSON(b []byte) error {
	o.Set = true
	if string(b) == "null" {
		o.Null = true
		return nil
	}
	return json.Unmarshal(b, &o.V)
}

func decodeInto(t reflect.Type, js string) (reflect.Value, bool) {
	p := reflect.New(t)
	if err := json.Unmarshal([]byte(js), p.Interface()); err != nil {
		return reflect.Value{}, false
	}
	return p.Elem(), true
}

func c16Positional(maxFull int) *Scenario {
	return &Scenario{
		Name:   fmt.Sprintf("Positional: arities 0..6 (all kind tuples up to arity %d), arrays and objects", maxFull),
		Params: map[string]any{"kinds": []string{"int", "string", "bool", "[]int", "*int", "P1", "any", "json.RawMessage", "Opt (custom Unmarshaler)", "uint64", "json.Number"}, "values": "integers beyond 2^53, max uint64, number and object texts whose spelling must survive"},
		Seq: func(r *SeqRun) {
			kinds := c16Kinds()
			names := []string{"a", "b", "c", "d", "e", "f"}
			var tuples [][]int
			var gen func(cur []int, n int)
			gen = func(cur []int, n int) {
				if len(cur) == n {
					tuples = append(tuples, append([]int(nil), cur...))
					return
				}
				for i := range kinds {
					gen(append(cur, i), n)
				}
			}
			for n := 1; n <= maxFull; n++ {
				gen(nil, n)
			}
			for n := maxFull + 1; n <= 6; n++ {
				t := make([]int, n)
				for i := range t {
					t[i] = (i * 3) % len(kinds)
				}
				tuples = append(tuples, t)
			}
			for _, tup := range tuples {
				if r.Expired() {
					return
				}
				n := len(tup)
				ins := []reflect.Type{tCtx}
				for _, k := range tup {
					ins = append(ins, kinds[k].T)
				}
				rec := &recorder{}
				fn := mkFunc(ins, []reflect.Type{reflect.TypeOf(0), tErr}, rec)
				fi, err := handler.Positional(fn, names[:n]...)
				sig := "func(ctx"
				for _, k := range tup {
					sig += "," + kinds[k].Name
				}
				sig += ") (int,error)"
				Hit("C16.R1")
				if err != nil {
					r.Fail("C16.R1", sig, "Positional rejected a valid function/name list: "+err.Error(), "")
					continue
				}
				h := fi.Wrap()
				try := func(params string, wantVals []reflect.Value, wantOK bool) {
					rec.calls, rec.args = 0, nil
					var herr error
					p := guarded(func() { _, herr = h(context.Background(), mkRequest(params)) })
					r.Calls(1)
					desc := sig + " names " + strings.Join(names[:n], ",") + " params " + params
					r.Case(fmt.Sprintf("pos/arity%d/%c/ok%v", n, firstOr(params), wantOK), true)
					if p != "" {
						r.Fail("C16.R6", desc, "panic: "+p, "")
						return
					}
					Hit("C16.R2")
					if wantOK {
						if rec.calls != 1 {
							r.Fail("C16.R2", desc, fmt.Sprintf("acceptable params, but the function was called %d times (err %v)", rec.calls, herr), "")
							return
						}
						Hit("C16.R3")
						for i := range wantVals {
							if !reflect.DeepEqual(deref(rec.args[i]), deref(wantVals[i])) {
								r.Fail("C16.R3", desc, fmt.Sprintf("argument %d is %#v, encoding/json decodes %#v", i+1, deref(rec.args[i]), deref(wantVals[i])), "")
							}
						}
					} else {
						if rec.calls != 0 {
							r.Fail("C16.R2", desc, "unacceptable params, but the function was called", "")
						}
						Hit("C16.R5")
						if herr == nil || jrpc2.ErrorCode(herr) != jrpc2.InvalidParams {
							r.Fail("C16.R5", desc, fmt.Sprintf("want InvalidParams, got %v", herr), "")
						}
					}
				}
				// arrays: every combination of the first/second good text per position would explode; use per-position variation
				base := make([]string, n)
				baseVals := make([]reflect.Value, n)
				for i, k := range tup {
					base[i] = kinds[k].Good[0]
					baseVals[i], _ = decodeInto(kinds[k].T, base[i])
				}
				try("["+strings.Join(base, ",")+"]", baseVals, true)
				for i, k := range tup {
					// null at position i
					el := append([]string(nil), base...)
					vals := append([]reflect.Value(nil), baseVals...)
					el[i] = "null"
					vals[i], _ = decodeInto(kinds[k].T, "null")
					try("["+strings.Join(el, ",")+"]", vals, true)
					// wrong element type at position i
					if kinds[k].Wrong != "" {
						el2 := append([]string(nil), base...)
						el2[i] = kinds[k].Wrong
						try("["+strings.Join(el2, ",")+"]", nil, false)
					}
				}
				try("["+strings.Join(base[:n-1], ",")+"]", nil, false)                                  // n-1 elements
				try("["+strings.Join(append(append([]string(nil), base...), "1"), ",")+"]", nil, false) // n+1 elements
				if n > 1 {
					try("[]", nil, false)
				}
				// objects over every subset of the names (n <= 4), or singletons + full set above
				var subsets []int
				if n <= 4 {
					for m := 0; m < 1<<n; m++ {
						subsets = append(subsets, m)
					}
				} else {
					subsets = append(subsets, 0, 1<<n-1)
					for i := 0; i < n; i++ {
						subsets = append(subsets, 1<<i)
					}
				}
				for _, m := range subsets {
					var parts []string
					vals := make([]reflect.Value, n)
					for i, k := range tup {
						if m&(1<<i) != 0 {
							parts = append(parts, fmt.Sprintf("%q:%s", names[i], base[i]))
							vals[i] = baseVals[i]
						} else {
							vals[i] = reflect.Zero(kinds[k].T)
						}
					}
					try("{"+strings.Join(parts, ",")+"}", vals, true)
					try("{"+strings.Join(append(append([]string(nil), parts...), `"zz":1`), ",")+"}", nil, false) // unknown key
				}
				for i, k := range tup {
					if kinds[k].Wrong != "" {
						try(fmt.Sprintf("{%q:%s}", names[i], kinds[k].Wrong), nil, false)
					}
				}
				try("5", nil, false)
				try(`"s"`, nil, false)
				// absent params: all zero values
				zero := make([]reflect.Value, n)
				for i, k := range tup {
					zero[i] = reflect.Zero(kinds[k].T)
				}
				try("", zero, true)
				// a handler already built keeps its behaviour when the FuncInfo it came from is changed and wrapped again
				fi.AllowArray(false)
				fi.SetStrict(false)
				h2 := fi.Wrap()
				try("["+strings.Join(base, ",")+"]", baseVals, true)
				try("{"+fmt.Sprintf("%q:%s", names[0], base[0])+`,"zz":1}`, nil, false)
				h = h2
				try("["+strings.Join(base, ",")+"]", nil, false) // the new handler is object-only
				fi.AllowArray(true)
				try("["+strings.Join(base, ",")+"]", nil, false) // and stays so
			}
			// name lists of the wrong length, and the arity-0 form
			rec := &recorder{}
			f2 := mkFunc([]reflect.Type{tCtx, reflect.TypeOf(0), reflect.TypeOf("")}, []reflect.Type{tErr}, rec)
			for _, nl := range [][]string{{}, {"a"}, {"a", "b", "c"}} {
				var err error
				p := guarded(func() { _, err = handler.Positional(f2, nl...) })
				r.Case("pos/badnames", true)
				Hit("C16.R1")
				if p != "" || err == nil {
					r.Fail("C16.R1", fmt.Sprintf("Positional(func(ctx,int,string) error, %q)", nl), fmt.Sprintf("want an error for %d names and 2 arguments (panic %q, err %v)", len(nl), p, err), "")
				}
			}
			for _, nl := range [][]string{{"a", "a"}, {"", "b"}, {"-", "b"}} {
				p := guarded(func() {
					if fi, err := handler.Positional(f2, nl...); err == nil {
						fi.Wrap()(context.Background(), mkRequest(`[1,"s"]`))
						fi.Wrap()(context.Background(), mkRequest(`{"a":1}`))
					}
				})
				r.Case("pos/oddnames", true)
				if p != "" {
					r.Fail("C16.R6", fmt.Sprintf("Positional names %q", nl), "panic: "+p, "")
				}
			}
			// name lists with unnamed positions ("" or "-"): those arguments can only be given by position.
			// The array must still have exactly n elements, and an object may use only the real names.
			f3 := mkFunc([]reflect.Type{tCtx, reflect.TypeOf(0), reflect.TypeOf(0), reflect.TypeOf(0)}, []reflect.Type{tErr}, rec)
			for _, nl := range [][]string{{"-", "b", "c"}, {"a", "", "c"}, {"a", "b", "-"}, {"", "-", "c"}, {"-", "", "-"}} {
				fi, err := handler.Positional(f3, nl...)
				if err != nil {
					continue // refusing such a list outright is within the documentation
				}
				h := fi.Wrap()
				real := ""
				for _, n := range nl {
					if n != "" && n != "-" {
						real = n
					}
				}
				type tc struct {
					params string
					ok     bool
					want   [3]int
					either bool // not documented: a full-length array for a list with unnamed positions may be refused (it is, at the pinned commit) or must be applied exactly
				}
				cases := []tc{{`[10,11,12]`, true, [3]int{10, 11, 12}, true}, {params: `[10,11]`}, {params: `[10]`}, {params: `[]`}, {params: `[10,11,12,13]`},
					{params: `{"P_1":7}`}, {params: `{"p_1":7}`}, {params: `{"P_2":7}`}, {params: `{"-":7}`}, {params: `{"":7}`}}
				if real != "" {
					var w [3]int
					for i, n := range nl {
						if n == real {
							w[i] = 5
						}
					}
					cases = append(cases, tc{params: fmt.Sprintf(`{%q:5}`, real), ok: true, want: w}, tc{params: fmt.Sprintf(`{%q:5,"P_1":1}`, real)})
				}
				for _, c := range cases {
					rec.calls, rec.args = 0, nil
					var herr error
					pn := guarded(func() { _, herr = h(context.Background(), mkRequest(c.params)) })
					r.Calls(1)
					r.Case(fmt.Sprintf("pos/unnamed/%v", c.ok), true)
					desc := fmt.Sprintf("Positional(func(ctx,int,int,int) error, %q) params %s", nl, c.params)
					Hit("C16.R2")
					switch {
					case pn != "":
						r.Fail("C16.R6", desc, "panic: "+pn, "")
					case c.either && herr != nil && rec.calls == 0 && jrpc2.ErrorCode(herr) == jrpc2.InvalidParams:
						// refused as a whole: allowed
					case c.ok:
						got := [3]int{}
						for i := 0; i < 3 && i < len(rec.args); i++ {
							got[i] = int(rec.args[i].Int())
						}
						if herr != nil || rec.calls != 1 || got != c.want {
							r.Fail("C16.R2", desc, fmt.Sprintf("want one call with %v, got err=%v calls=%d args=%v", c.want, herr, rec.calls, got), "")
						}
					default:
						if herr == nil || rec.calls != 0 || jrpc2.ErrorCode(herr) != jrpc2.InvalidParams {
							r.Fail("C16.R2", desc, fmt.Sprintf("want InvalidParams without a call (3 positions, unnamed ones cannot be given by key), got err=%v calls=%d", herr, rec.calls), "")
						}
					}
				}
			}
			// Positional with the decoding options set: AllowArray(false) turns arrays away and nothing else;
			// unknown names stay errors whatever the options (the names given are the only keys there are)
			f2b := mkFunc([]reflect.Type{tCtx, reflect.TypeOf(0), reflect.TypeOf(0)}, []reflect.Type{tErr}, rec)
			for _, opt := range []string{"AllowArray(false)", "AllowArray(true)", "SetStrict(true)", "SetStrict(true)+AllowArray(false)"} {
				fi, err := handler.Positional(f2b, "first", "second")
				if err != nil {
					r.Fail("C16.R1", "Positional(func(ctx,int,int) error, first, second)", "rejected: "+err.Error(), "")
					break
				}
				arrays := true
				switch opt {
				case "AllowArray(false)":
					fi.AllowArray(false)
					arrays = false
				case "AllowArray(true)":
					fi.AllowArray(true)
				case "SetStrict(true)":
					fi.SetStrict(true)
				default:
					fi.SetStrict(true).AllowArray(false)
					arrays = false
				}
				h := fi.Wrap()
				for _, c := range []struct {
					params string
					ok     bool
				}{{`[1,2]`, arrays}, {`{"first":1,"second":2}`, true}, {`{"first":1}`, true}, {`{"first":1,"third":3}`, false}, {`{"third":3}`, false}, {`[1]`, false}, {`[1,2,3]`, false}} {
					rec.calls = 0
					var herr error
					pn := guarded(func() { _, herr = h(context.Background(), mkRequest(c.params)) })
					r.Calls(1)
					r.Case(fmt.Sprintf("pos/options/%v", c.ok), true)
					desc := fmt.Sprintf("Positional(first, second).%s params %s", opt, c.params)
					Hit("C16.R2")
					if pn != "" {
						r.Fail("C16.R6", desc, "panic: "+pn, "")
					} else if c.ok && (herr != nil || rec.calls != 1) {
						r.Fail("C16.R2", desc, fmt.Sprintf("want one call, got err=%v calls=%d", herr, rec.calls), "")
					} else if !c.ok && (herr == nil || rec.calls != 0 || jrpc2.ErrorCode(herr) != jrpc2.InvalidParams) {
						r.Fail("C16.R2", desc, fmt.Sprintf("want InvalidParams without a call, got err=%v calls=%d", herr, rec.calls), "")
					}
				}
			}
			f0 := mkFunc([]reflect.Type{tCtx}, []reflect.Type{tErr}, rec)
			if fi, err := handler.Positional(f0); err != nil {
				r.Fail("C16.R1", "Positional(func(ctx) error)", "rejected: "+err.Error(), "")
			} else {
				rec.calls = 0
				_, e1 := fi.Wrap()(context.Background(), mkRequest(""))
				c1 := rec.calls
				_, e2 := fi.Wrap()(context.Background(), mkRequest("[1]"))
				for _, ps := range []string{"{}", "[]", `{"a":1}`, "null"} {
					before := rec.calls
					_, e3 := fi.Wrap()(context.Background(), mkRequest(ps))
					// params given to a function that takes none: refused (JSON null counts as no params)
					if ps != "null" && (e3 == nil || rec.calls != before) {
						r.Fail("C16.R2", "Positional(func(ctx) error) params "+ps, fmt.Sprintf("want InvalidParams without a call, got err=%v calls=%d", e3, rec.calls-before), "")
					}
					rec.calls = before
				}
				r.Case("pos/arity0", true)
				if e1 != nil || c1 != 1 || e2 == nil || rec.calls != 1 {
					r.Fail("C16.R2", "Positional(func(ctx) error)", fmt.Sprintf("no-params call err=%v calls=%d; with params err=%v calls=%d", e1, c1, e2, rec.calls), "")
				}
			}
			for _, bad := range []any{nil, 5, func() {}, func(int) error { return nil }, func(context.Context, ...int) error { return nil }} {
				var err error
				p := guarded(func() { _, err = handler.Positional(bad, "a") })
				r.Case("pos/reject", true)
				if p != "" || err == nil {
					r.Fail("C16.R1", fmt.Sprintf("Positional(%T)", bad), fmt.Sprintf("want an error (panic %q err %v)", p, err), "")
				}
			}
			r.Sample(map[string]any{"function": "func(ctx, int, *int, P1) (int, error)", "names": []string{"a", "b", "c"}, "params": `{"a":7,"c":{"A":1,"B":"b"}}`})
		},
	}
}

func firstOr(s string) byte {
	if s == "" {
		return '-'
	}
	return s[0]
}

func c16ArgsObj() *Scenario {
	return &Scenario{
		Name: "Args and Obj: positional and keyed decoding with nil slots / absent keys",
		Seq: func(r *SeqRun) {
			// Args: n slots, every subset nil, arrays of length n-1, n, n+1
			for n := 0; n <= 4; n++ {
				for mask := 0; mask < 1<<n; mask++ {
					for _, l := range []int{n - 1, n, n + 1} {
						if l < 0 {
							continue
						}
						targets := make([]*int, n)
						args := make(handler.Args, n)
						for i := 0; i < n; i++ {
							v := -1
							targets[i] = &v
							if mask&(1<<i) == 0 {
								args[i] = targets[i]
							}
						}
						var elts []string
						for i := 0; i < l; i++ {
							elts = append(elts, fmt.Sprint(10+i))
						}
						in := "[" + strings.Join(elts, ",") + "]"
						var err error
						p := guarded(func() { err = json.Unmarshal([]byte(in), &args) })
						r.Calls(1)
						r.Case(fmt.Sprintf("args/n%d/l%d", n, l), true)
						desc := fmt.Sprintf("Args with %d slots (nil mask %b) <- %s", n, mask, in)
						Hit("C16.R7")
						if p != "" {
							r.Fail("C16.R6", desc, "panic: "+p, "")
							continue
						}
						if (l == n) != (err == nil) {
							r.Fail("C16.R7", desc, fmt.Sprintf("exact length required: err=%v", err), "")
						}
						for i := 0; i < n; i++ {
							want := -1
							if l == n && mask&(1<<i) == 0 {
								want = 10 + i
							}
							if l == n && *targets[i] != want {
								r.Fail("C16.R7", desc, fmt.Sprintf("slot %d holds %d, want %d", i, *targets[i], want), "")
							}
						}
						// encoding
						enc := make(handler.Args, n)
						for i := range enc {
							enc[i] = i
						}
						b, merr := json.Marshal(enc)
						var back []int
						if merr != nil || json.Unmarshal(b, &back) != nil || len(back) != n {
							r.Fail("C16.R7", fmt.Sprintf("Args of %d ints", n), fmt.Sprintf("marshals to %s (err %v)", b, merr), "")
						}
					}
				}
			}
			for _, in := range []string{`{"a":1}`, `5`, `"s"`, `null`} {
				a, b := 0, 0
				args := handler.Args{&a, &b}
				var err error
				p := guarded(func() { err = json.Unmarshal([]byte(in), &args) })
				r.Case("args/nonarray", true)
				if p != "" || (err == nil && in != "null") {
					r.Fail("C16.R7", "Args <- "+in, fmt.Sprintf("non-array input accepted (panic %q err %v)", p, err), "")
				}
			}
			// Args: an element of the wrong type is an error, in every position
			for pos := 0; pos < 3; pos++ {
				a, b, c := 0, "keep", 0
				args := handler.Args{&a, &b, &c}
				elts := []string{"1", `"s"`, "3"}
				elts[pos] = map[int]string{0: `"x"`, 1: "7", 2: `[1]`}[pos]
				in := "[" + strings.Join(elts, ",") + "]"
				err := json.Unmarshal([]byte(in), &args)
				r.Calls(1)
				r.Case("args/wrongtype", true)
				Hit("C16.R7")
				if err == nil {
					r.Fail("C16.R7", "Args{&int,&string,&int} <- "+in, fmt.Sprintf("an element of the wrong type was accepted (a=%d b=%q c=%d)", a, b, c), "")
				}
			}
			// Obj: every subset of keys present; absent targets untouched
			keys := []string{"a", "b", "c", "d"}
			for present := 0; present < 1<<4; present++ {
				for _, extra := range []bool{false, true} {
					tv := make([]int, 4)
					obj := handler.Obj{}
					for i, k := range keys {
						tv[i] = -1
						obj[k] = &tv[i]
					}
					var parts []string
					for i, k := range keys {
						if present&(1<<i) != 0 {
							parts = append(parts, fmt.Sprintf("%q:%d", k, 20+i))
						}
					}
					if extra {
						parts = append(parts, `"zz":99`)
					}
					in := "{" + strings.Join(parts, ",") + "}"
					var err error
					p := guarded(func() { err = json.Unmarshal([]byte(in), &obj) })
					r.Calls(1)
					r.Case(fmt.Sprintf("obj/%d/%v", bitsSet(present), extra), true)
					Hit("C16.R8")
					if p != "" || err != nil {
						r.Fail("C16.R8", "Obj <- "+in, fmt.Sprintf("panic %q err %v", p, err), "")
						continue
					}
					for i := range keys {
						want := -1
						if present&(1<<i) != 0 {
							want = 20 + i
						}
						if tv[i] != want {
							r.Fail("C16.R8", "Obj <- "+in, fmt.Sprintf("target %q holds %d, want %d (absent keys must leave their target untouched)", keys[i], tv[i], want), "")
						}
					}
				}
			}
			// targets for which a JSON null (or any write) would be visible: slice, map, pointer
			for present := 0; present < 1<<3; present++ {
				sl := []int{9}
				mp := map[string]int{"z": 1}
				seven := 7
				pt := &seven
				obj := handler.Obj{"sl": &sl, "mp": &mp, "pt": &pt}
				var parts []string
				if present&1 != 0 {
					parts = append(parts, `"sl":[1,2]`)
				}
				if present&2 != 0 {
					parts = append(parts, `"mp":{"k":2}`)
				}
				if present&4 != 0 {
					parts = append(parts, `"pt":5`)
				}
				in := "{" + strings.Join(parts, ",") + "}"
				err := json.Unmarshal([]byte(in), &obj)
				r.Calls(1)
				r.Case(fmt.Sprintf("obj/refs/%d", present), true)
				Hit("C16.R8")
				okSl := (present&1 != 0 && reflect.DeepEqual(sl, []int{1, 2})) || (present&1 == 0 && reflect.DeepEqual(sl, []int{9}))
				okMp := (present&2 != 0 && mp["k"] == 2) || (present&2 == 0 && reflect.DeepEqual(mp, map[string]int{"z": 1}))
				okPt := pt != nil && ((present&4 != 0 && *pt == 5) || (present&4 == 0 && pt == &seven && *pt == 7))
				if err != nil || !okSl || !okMp || !okPt {
					r.Fail("C16.R8", "Obj{sl,mp,pt} <- "+in, fmt.Sprintf("err=%v sl=%v mp=%v pt=%v: a target whose key is absent was touched", err, sl, mp, pt), "")
				}
			}
			{
				a := 0
				s := "keep"
				obj := handler.Obj{"a": &a, "s": &s}
				err := json.Unmarshal([]byte(`{"a":"wrong"}`), &obj)
				r.Case("obj/wrongtype", true)
				if err == nil || s != "keep" {
					r.Fail("C16.R8", `Obj <- {"a":"wrong"}`, fmt.Sprintf("err=%v other target=%q", err, s), "")
				}
				for _, in := range []string{"[1]", "5"} {
					if json.Unmarshal([]byte(in), &obj) == nil {
						r.Fail("C16.R8", "Obj <- "+in, "non-object input accepted", "")
					}
				}
			}
			r.Sample(map[string]any{"Args": "Args{&a,nil,&c} <- [10,11,12]", "Obj": `Obj{"a":&x,"b":&y} <- {"b":21}`})
		},
	}
}

func bitsSet(n int) int {
	c := 0
	for ; n > 0; n >>= 1 {
		c += n & 1
	}
	return c
}

func c16Scenarios(tier string) []*Scenario {
	if tier == "quick" {
		return []*Scenario{c16Positional(2), c16ArgsObj()}
	}
	return []*Scenario{c16Positional(3), c16ArgsObj()}
}
