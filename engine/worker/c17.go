package main

import (
	"context"
	"encoding/json"
	"fmt"
	"github.com/creachadair/jrpc2/jhttp"
	"github.com/creachadair/jrpc2/server"
	"net/http/httptest"
	"sort"
	"strings"
	"time"

	"github.com/creachadair/jrpc2"
	"github.com/creachadair/jrpc2/channel"
	"github.com/creachadair/jrpc2/handler"
	"verif/vs"
)

// C17 — method dispatch: exact names, first-dot service split, reserved rpc.* names.

func init() { register("C17", c17Scenarios) }

// refTree is the reference description of an assigner: either a leaf map (method names) or services.
type refTree struct {
	Name     string
	Methods  []string            // Map keys
	Services map[string]*refTree // ServiceMap entries
}

// resolve implements the documented lookup; it returns the identity tag of the handler or "".
func (t *refTree) resolve(name string) string {
	if t.Services == nil {
		for _, m := range t.Methods {
			if m == name {
				return t.Name + "/" + m
			}
		}
		return ""
	}
	i := strings.IndexByte(name, '.')
	if i < 0 {
		return ""
	}
	sub, ok := t.Services[name[:i]]
	if !ok {
		return ""
	}
	return sub.resolve(name[i+1:])
}

func (t *refTree) names() []string {
	if t.Services == nil {
		out := append([]string(nil), t.Methods...)
		sort.Strings(out)
		return out
	}
	var out []string
	for svc, sub := range t.Services {
		for _, n := range sub.names() {
			out = append(out, svc+"."+n)
		}
	}
	sort.Strings(out)
	return out
}

type c17Env struct {
	srv      *jrpc2.Server
	problem  []string
	assigned []string // "<inbound id>/<method>" for every Assign call, in order
}

// build constructs the real assigner for a reference tree.
func (e *c17Env) build(t *refTree) jrpc2.Assigner {
	if t.Services == nil {
		m := handler.Map{}
		for _, name := range t.Methods {
			tag := t.Name + "/" + name
			m[name] = func(ctx context.Context, req *jrpc2.Request) (any, error) {
				in := jrpc2.InboundRequest(ctx)
				if in == nil || in != req {
					e.problem = append(e.problem, "InboundRequest(ctx) in handler "+tag+" is not the request being handled")
				}
				if jrpc2.ServerFromContext(ctx) != e.srv {
					e.problem = append(e.problem, "ServerFromContext(ctx) in handler "+tag+" is not the serving server")
				}
				return tag + "|" + req.Method(), nil
			}
		}
		return m
	}
	sm := handler.ServiceMap{}
	for svc, sub := range t.Services {
		sm[svc] = e.build(sub)
	}
	return sm
}

type checkingAssigner struct {
	e     *c17Env
	inner jrpc2.Assigner
}

func (c checkingAssigner) Assign(ctx context.Context, method string) jrpc2.Handler {
	in := jrpc2.InboundRequest(ctx)
	if in == nil || in.Method() != method {
		c.e.problem = append(c.e.problem, fmt.Sprintf("InboundRequest(ctx) in Assign(%q) unavailable or for another method", method))
	} else {
		c.e.assigned = append(c.e.assigned, in.ID()+"/"+method)
	}
	return c.inner.Assign(ctx, method)
}

func (c checkingAssigner) Names() []string { return c.inner.(jrpc2.Namer).Names() }

func c17Trees() []*refTree {
	leaf := func(name string, ms ...string) *refTree { return &refTree{Name: name, Methods: ms} }
	return []*refTree{
		leaf("M", "a", "a.b", "a..b", ".a", "a.", "rpc", "rpc.", "rpc.a", "rpc.serverInfo", "RPC.a", "é", "b", "r.p.c", "rpc.a.b", "rpc..a", "rpc.a.", "rpc.serverInfo.a", "xrpc.a", "a.rpc.b", "grpc.", ".rpc.a", "rpcs"),
		{Name: "S1", Services: map[string]*refTree{
			"a":    leaf("S1a", "b", "", "a.b", ".c", "a", "rpc.x"),
			"xrpc": leaf("S1xrpc", "a"),
			"":     leaf("S1empty", "a", ""),
			"rpc":  leaf("S1rpc", "a", "serverInfo", "a.b", ".a", "a."),
			"a.b":  leaf("S1unreachable", "c"),
			"c.c":  leaf("S1dotted", "a"),
			"a-":   leaf("S1a-", "b", "a"), // a service name that has another one as prefix, continued by a byte below '.'
			"a b":  leaf("S1a b", "b"),
			"é":    leaf("S1é", "é"),
			"R":    {Name: "S1R", Services: map[string]*refTree{"p": leaf("S1Rp", "c", "c.c")}},
		}},
		{Name: "S3", Services: map[string]*refTree{
			"a": {Name: "S3a", Services: map[string]*refTree{
				"b":  {Name: "S3ab", Services: map[string]*refTree{"c": leaf("S3abc", "a", "", "r.p")}},
				"":   leaf("S3a-empty", "b"),
				"b+": leaf("S3ab+", "c"),
			}},
			"r":   leaf("S3r", "p", "p.c"),
			"rpc": {Name: "S3rpc", Services: map[string]*refTree{"a": leaf("S3rpca", "b", "")}},
		}},
	}
}

func c17Names(alpha []rune, minLen, maxLen int, first rune) []string {
	var out []string
	var rec func(cur []rune)
	rec = func(cur []rune) {
		if len(cur) >= minLen {
			out = append(out, string(cur))
		}
		if len(cur) == maxLen {
			return
		}
		for _, c := range alpha {
			rec(append(append([]rune(nil), cur...), c))
		}
	}
	if first != 0 {
		rec([]rune{first})
	} else {
		rec(nil)
	}
	return out
}

func c17Dispatch(tree *refTree, disable bool, names []string, label string) *Scenario {
	return &Scenario{
		Name:   fmt.Sprintf("dispatch %s DisableBuiltin=%v: %s", tree.Name, disable, label),
		Params: map[string]any{"assigner": tree.Name, "disable_builtin": disable, "names": len(names)},
		Seq: func(r *SeqRun) {
			// names derived from the assigner's own keys: every listed name and its one-edit neighbours
			var derived []string
			for _, n := range tree.names() {
				derived = append(derived, n, n+".", "."+n, strings.ToUpper(n), n+"x")
				for i := 0; i < len(n); i++ {
					if n[i] == '.' {
						derived = append(derived, n[:i]+n[i+1:], n[:i]+"."+n[i:])
					}
				}
			}
			names = append(append([]string(nil), names...), derived...)
			extra := []string{"rpc.serverInfo", "rpc.serverinfo", "rpc.serverInfoo", "rpc.serverInf", "rpcserverInfo", "rpc..serverInfo", "Rpc.serverInfo", " rpc.serverInfo", "rpc.serverInfo "}
			all := append(append([]string(nil), names...), extra...)
			for start := 0; start < len(all); start += 400 {
				if r.Expired() {
					return
				}
				end := start + 400
				if end > len(all) {
					end = len(all)
				}
				chunk := all[start:end]
				type res struct {
					result string
					code   int
					isErr  bool
					done   bool
				}
				results := make([]res, len(chunk))
				env := &c17Env{}
				batchProblem := ""
				var gotNames []string
				x := vs.Run(nil, func() {
					cch, sch := channel.Direct()
					asg := checkingAssigner{env, env.build(tree)}
					gotNames = asg.Names()
					srv := jrpc2.NewServer(asg, &jrpc2.ServerOptions{DisableBuiltin: disable}).Start(sch)
					env.srv = srv
					cli := jrpc2.NewClient(cch, nil)
					for i, n := range chunk {
						rsp, err := cli.Call(context.Background(), n, nil)
						results[i].done = true
						if err != nil {
							results[i].isErr = true
							results[i].code = int(jrpc2.ErrorCode(err))
						} else {
							results[i].result = rsp.ResultString()
						}
					}
					if start == 0 {
						// a batch repeating method names: the assigner is consulted for every request, with that request
						var plain []string
						for _, n := range tree.names() {
							if !strings.HasPrefix(n, "rpc.") && n != "" {
								plain = append(plain, n)
							}
						}
						if len(plain) >= 2 {
							a, b := plain[0], plain[1]
							env.assigned = nil
							rsps, err := cli.Batch(context.Background(), []jrpc2.Spec{{Method: a}, {Method: a}, {Method: a, Notify: true}, {Method: b}, {Method: "zz.none"}, {Method: a}})
							vs.AwaitQuiescence()
							if err != nil || len(rsps) != 5 {
								batchProblem = fmt.Sprintf("batch repeating %q failed: %v (%d responses)", a, err, len(rsps))
							} else {
								want := []string{"/" + a}
								for i, m := range []string{a, a, b, "zz.none", a} {
									want = append(want, rsps[i].ID()+"/"+m)
								}
								got := append([]string(nil), env.assigned...)
								sort.Strings(want)
								sort.Strings(got)
								if strings.Join(got, " ") != strings.Join(want, " ") {
									batchProblem = fmt.Sprintf("batch [%s %s %s(note) %s zz.none %s]: the assigner was consulted for (inbound id/method) %q, want once per request %q", a, a, a, b, a, got, want)
								}
								wantTag := fmt.Sprintf("%q", tree.resolve(a)+"|"+a)
								for _, i := range []int{0, 1, 4} {
									if rsps[i].ResultString() != wantTag {
										batchProblem = fmt.Sprintf("batch member %d (%s) answered %s, want %s", i, a, rsps[i].ResultString(), wantTag)
									}
								}
							}
						}
					}
					cli.Close()
					srv.WaitStatus()
				})
				r.Calls(x.Steps)
				if x.Outcome != "ok" {
					r.Fail("G1", fmt.Sprintf("names %d..%d", start, end), "run ended with "+x.Outcome+" "+firstLine(x.Detail), "")
					continue
				}
				if batchProblem != "" {
					Hit("C17.R2")
					r.Fail("C17.R2", tree.Name, batchProblem, "")
				}
				for _, p := range env.problem {
					r.Fail("C17.R2", tree.Name, p, "")
				}
				Hit("C17.R3")
				if want := tree.names(); strings.Join(gotNames, "\x00") != strings.Join(want, "\x00") {
					r.Fail("C17.R3", tree.Name, fmt.Sprintf("Names() = %q, want sorted and complete %q", gotNames, want), "")
				}
				for i, n := range chunk {
					if !results[i].done {
						continue
					}
					got := results[i]
					builtinName := !disable && strings.HasPrefix(n, "rpc.")
					wantTag := ""
					if !builtinName {
						wantTag = tree.resolve(n)
					}
					class := "notfound"
					Hit("C17.R1")
					switch {
					case n == "":
						class = "empty"
						// the client cannot even express an empty method; any failure is fine
						if !got.isErr {
							r.Fail("C17.R1", `""`, "empty method name was dispatched", "")
						}
					case builtinName && n == "rpc.serverInfo":
						class = "serverInfo"
						Hit("C17.R4")
						var info struct {
							Methods   []string                   `json:"methods"`
							Metrics   map[string]json.RawMessage `json:"metrics"`
							StartTime string                     `json:"startTime"`
						}
						if got.isErr || json.Unmarshal([]byte(got.result), &info) != nil {
							r.Fail("C17.R4", n, "rpc.serverInfo did not answer with a result object", "")
						} else {
							if strings.Join(info.Methods, "\x00") != strings.Join(tree.names(), "\x00") {
								r.Fail("C17.R4", n, fmt.Sprintf("serverInfo methods %q, want the sorted method list %q", info.Methods, tree.names()), "")
							}
							if len(info.Metrics) == 0 || info.StartTime == "" {
								r.Fail("C17.R4", n, "serverInfo lacks metrics or start time: "+got.result, "")
							} else if st, perr := time.Parse(time.RFC3339Nano, info.StartTime); perr != nil || st.Year() < 2000 {
								r.Fail("C17.R4", n, "serverInfo start time is not the time the server was started: "+info.StartTime, "")
							}
						}
					case builtinName:
						class = "reserved"
						Hit("C17.R5")
						if !got.isErr || got.code != -32601 {
							r.Fail("C17.R5", n, fmt.Sprintf("reserved name must be method-not-found, got result %q code %d", got.result, got.code), "")
						}
					case wantTag != "":
						class = "found:" + strings.SplitN(wantTag, "/", 2)[0]
						want := fmt.Sprintf("%q", wantTag+"|"+n)
						if got.isErr || got.result != want {
							r.Fail("C17.R1", n, fmt.Sprintf("dispatched to %s (err code %d), want handler %s", got.result, got.code, want), "")
						}
					default:
						if !got.isErr || got.code != -32601 {
							r.Fail("C17.R1", n, fmt.Sprintf("no handler is mapped to this name, but the call returned %q (code %d)", got.result, got.code), "")
						}
					}
					r.Case(fmt.Sprintf("%s/%v/%s", tree.Name, disable, class), class != "notfound")
				}
			}
			r.Sample(map[string]any{"assigner": tree.Name, "name": "a..b", "resolves_to": tree.resolve("a..b")})
		},
	}
}

// dynAssigner is an assigner whose method set changes while the server runs (NewServer allows that for
// an assigner that is safe for concurrent use; under the scheduler every step is atomic).
type dynAssigner struct{ set map[string]bool }

func (d *dynAssigner) Assign(ctx context.Context, method string) jrpc2.Handler {
	if !d.set[method] {
		return nil
	}
	return func(ctx context.Context, req *jrpc2.Request) (any, error) { return "dyn|" + req.Method(), nil }
}

func (d *dynAssigner) Names() []string {
	var out []string
	for n := range d.set {
		out = append(out, n)
	}
	sort.Strings(out)
	return out
}

// c17Dynamic: the method list reported by rpc.serverInfo and Server.ServerInfo is the assigner's list at
// the time of asking: before Start, after every change of the assigner, and across a restart.
func c17Dynamic() *Scenario {
	steps := [][]string{{"a", "b"}, {"b", "c"}, {"a.x", "b", "c"}, {}, {"z"}} // each sorted
	return &Scenario{
		Name:   "method list of a changing assigner: ServerInfo before Start, rpc.serverInfo after each change, restart",
		Params: map[string]any{"method_sets": steps},
		Seq: func(r *SeqRun) {
			for _, restartAt := range []int{-1, 1, 2} {
				var problems []string
				x := vs.Run(nil, func() {
					d := &dynAssigner{set: map[string]bool{}}
					for _, n := range steps[0] {
						d.set[n] = true
					}
					srv := jrpc2.NewServer(d, nil)
					if got := srv.ServerInfo().Methods; strings.Join(got, ",") != strings.Join(steps[0], ",") {
						problems = append(problems, fmt.Sprintf("before Start: ServerInfo().Methods = %q, want %q", got, steps[0]))
					}
					cch, sch := channel.Direct()
					srv.Start(sch)
					cli := jrpc2.NewClient(cch, nil)
					for i, set := range steps {
						d.set = map[string]bool{}
						for _, n := range set {
							d.set[n] = true
						}
						if i == restartAt {
							cli.Close()
							srv.WaitStatus()
							cch, sch = channel.Direct()
							srv.Start(sch)
							cli = jrpc2.NewClient(cch, nil)
						}
						var info jrpc2.ServerInfo
						if err := cli.CallResult(context.Background(), "rpc.serverInfo", nil, &info); err != nil {
							problems = append(problems, fmt.Sprintf("step %d: rpc.serverInfo failed: %v", i, err))
						} else if strings.Join(info.Methods, ",") != strings.Join(set, ",") {
							problems = append(problems, fmt.Sprintf("step %d (restart at %d): rpc.serverInfo methods = %q, the assigner lists %q", i, restartAt, info.Methods, set))
						}
						if got := srv.ServerInfo().Methods; strings.Join(got, ",") != strings.Join(set, ",") {
							problems = append(problems, fmt.Sprintf("step %d: ServerInfo().Methods = %q, the assigner lists %q", i, got, set))
						}
						for _, n := range []string{"a", "b", "c", "a.x", "z"} {
							rsp, err := cli.Call(context.Background(), n, nil)
							if d.set[n] && (err != nil || rsp.ResultString() != fmt.Sprintf("%q", "dyn|"+n)) {
								problems = append(problems, fmt.Sprintf("step %d: %q is assigned but the call gave %v", i, n, err))
							}
							if !d.set[n] && jrpc2.ErrorCode(err) != -32601 {
								problems = append(problems, fmt.Sprintf("step %d: %q is not assigned but the call gave %v", i, n, err))
							}
						}
					}
					cli.Close()
					srv.WaitStatus()
				})
				r.Calls(x.Steps)
				r.Case(fmt.Sprintf("dynamic/restart=%d", restartAt), true)
				Hit("C17.R4")
				if x.Outcome != "ok" {
					r.Fail("G1", "changing assigner", "run ended with "+x.Outcome+" "+firstLine(x.Detail), "")
				}
				for _, p := range problems {
					r.Fail("C17.R4", "changing assigner", p, "")
				}
			}
			// the start time given in the options is the one reported; DisableBuiltin reaches the servers that
			// server.Loop, jhttp.Bridge and jhttp.Getter build from their options
			{
				want := time.Date(2001, 2, 3, 4, 5, 6, 0, time.UTC)
				var got time.Time
				reached := map[string]bool{}
				x := vs.Run(nil, func() {
					cch, sch := channel.Direct()
					srv := jrpc2.NewServer(anyAssigner{func(context.Context, *jrpc2.Request) (any, error) { return 1, nil }}, &jrpc2.ServerOptions{StartTime: want}).Start(sch)
					cli := jrpc2.NewClient(cch, nil)
					var info jrpc2.ServerInfo
					if cli.CallResult(context.Background(), "rpc.serverInfo", nil, &info) == nil {
						got = info.StartTime
					}
					cli.Close()
					srv.WaitStatus()
					// wrappers
					catch := func(tag string) jrpc2.Assigner {
						return assignerFunc(func(ctx context.Context, m string) jrpc2.Handler {
							if m == "rpc.x" {
								reached[tag] = true
							}
							return func(context.Context, *jrpc2.Request) (any, error) { return 1, nil }
						})
					}
					so := &jrpc2.ServerOptions{DisableBuiltin: true}
					loc := server.NewLocal(catch("local"), &server.LocalOptions{Server: so})
					loc.Client.Call(context.Background(), "rpc.x", nil)
					loc.Close()
					g := jhttp.NewGetter(catch("getter"), &jhttp.GetterOptions{Server: so})
					g.ServeHTTP(httptest.NewRecorder(), httptest.NewRequest("GET", "/rpc.x", nil))
					g.Close()
					// server.Loop
					{
						lib, peer, _ := NewPipe(PipeOpts{Name: "loopconn", CloseUnblocksRecv: true, Quiet: true})
						acc := &memAccepter{queue: []channel.Channel{lib}}
						lctx, lcancel := cancelCauseCtx()
						vs.GoNamed("loop-client", func() {
							peer.Send([]byte(`{"jsonrpc":"2.0","id":1,"method":"rpc.x"}`))
							peer.Recv()
							peer.Close()
							vs.AwaitQuiescence()
							lcancel()
						})
						server.Loop(lctx, acc, server.Static(catch("loop")), &server.LoopOptions{ServerOptions: so})
						lcancel()
					}
					// the GET side of a Bridge
					bg := jhttp.NewBridge(catch("bridge-get"), &jhttp.BridgeOptions{Server: so, ParseGETRequest: jhttp.ParseBasic})
					bg.ServeHTTP(httptest.NewRecorder(), httptest.NewRequest("GET", "/rpc.x", nil))
					bg.Close()
					b := jhttp.NewBridge(catch("bridge"), &jhttp.BridgeOptions{Server: so})
					rq := httptest.NewRequest("POST", "/", strings.NewReader(`{"jsonrpc":"2.0","id":1,"method":"rpc.x"}`))
					rq.Header.Set("Content-Type", "application/json")
					b.ServeHTTP(httptest.NewRecorder(), rq)
					b.Close()
				})
				r.Calls(x.Steps)
				r.Case("options", true)
				Hit("C17.R4")
				if x.Outcome != "ok" {
					r.Fail("G1", "options", "run ended with "+x.Outcome+" "+firstLine(x.Detail), "")
				}
				if !got.Equal(want) {
					r.Fail("C17.R4", "ServerOptions.StartTime", fmt.Sprintf("rpc.serverInfo reports start time %v, the options say %v", got, want), "")
				}
				for _, tag := range []string{"local", "getter", "bridge", "bridge-get", "loop"} {
					Hit("C17.R6")
					if !reached[tag] {
						r.Fail("C17.R6", "DisableBuiltin through "+tag, "with DisableBuiltin set in the server options a call to rpc.x did not reach the assigner", "")
					}
				}
			}
			// a ServiceMap one of whose services cannot list its methods
			var mixed []string
			pm := guarded(func() {
				sm := handler.ServiceMap{"s": handler.Map{"b": nil, "a": nil}, "t": anyAssigner{nil}, "u": handler.ServiceMap{"v": anyAssigner{nil}, "w": handler.Map{"x": nil}}}
				mixed = sm.Names()
			})
			r.Calls(1)
			r.Case("servicemap-non-namer", true)
			Hit("C17.R3")
			if pm != "" {
				r.Fail("C17.R3", "ServiceMap with a service that is not a Namer", "Names panicked: "+pm, "")
			} else {
				var plain []string
				for _, n := range mixed {
					if !strings.Contains(n, "*") {
						plain = append(plain, n)
					}
				}
				if !sort.StringsAreSorted(mixed) || strings.Join(plain, ",") != "s.a,s.b,u.w.x" {
					r.Fail("C17.R3", "ServiceMap with a service that is not a Namer", fmt.Sprintf("Names() = %q: want sorted, with s.a, s.b and u.w.x listed", mixed), "")
				}
				if strings.Join(mixed, ",") != "s.a,s.b,t.*,u.v.*,u.w.x" {
					r.Fail("C17.R3", "ServiceMap with a service that is not a Namer", fmt.Sprintf("Names() = %q: a service that cannot list its methods is documented to appear as <service>.*", mixed), "")
				}
			}
			// Names is sorted on every call (map iteration order varies), and an empty ServiceMap lists nothing
			{
				sm := handler.ServiceMap{"b": handler.Map{"x": nil}, "a": handler.Map{"y": nil}, "c": handler.Map{"z": nil}, "d": handler.Map{"w": nil}}
				for k := 0; k < 40; k++ {
					if got := sm.Names(); strings.Join(got, ",") != "a.y,b.x,c.z,d.w" {
						r.Fail("C17.R3", "ServiceMap{a,b,c,d}.Names()", fmt.Sprintf("call %d returned %q", k+1, got), "")
						break
					}
				}
				var empty []string
				if pe := guarded(func() { empty = handler.ServiceMap{}.Names() }); pe != "" || len(empty) != 0 {
					r.Fail("C17.R3", "ServiceMap{}.Names()", fmt.Sprintf("panic %q, names %q", pe, empty), "")
				}
			}
			// an assigner that lists nothing: the documented placeholder
			var got []string
			x := vs.Run(nil, func() {
				srv := jrpc2.NewServer(anyAssigner{func(context.Context, *jrpc2.Request) (any, error) { return 1, nil }}, nil)
				got = srv.ServerInfo().Methods
			})
			r.Calls(x.Steps)
			r.Case("non-namer", true)
			if strings.Join(got, ",") != "*" {
				r.Fail("C17.R4", "assigner without Names", fmt.Sprintf("ServerInfo().Methods = %q, want [\"*\"]", got), "")
			}
			r.Sample(map[string]any{"sets": steps})
		},
	}
}

func c17Scenarios(tier string) []*Scenario {
	alpha := []rune{'a', 'b', '.', 'r', 'p', 'c', 'R', 'é'}
	var out []*Scenario
	trees := c17Trees()
	out = append(out, c17Dynamic())
	if tier == "quick" {
		names := c17Names(alpha, 1, 4, 0)
		rpc := c17Names(alpha, 1, 3, 0)
		var rpcNames []string
		for _, n := range rpc {
			rpcNames = append(rpcNames, "rpc."+n, "rpc"+n)
		}
		names = append(names, rpcNames...)
		for _, t := range trees {
			for _, d := range []bool{false, true} {
				out = append(out, c17Dispatch(t, d, names, "every name of length 1..4 over {a,b,.,r,p,c,R,é} plus rpc.* names"))
			}
		}
		return out
	}
	for _, t := range trees {
		for _, d := range []bool{false, true} {
			for _, f := range alpha {
				names := c17Names(alpha, 1, 6, f)
				if f == 'r' {
					for _, n := range c17Names(alpha, 1, 4, 0) {
						names = append(names, "rpc."+n)
					}
				}
				out = append(out, c17Dispatch(t, d, names, fmt.Sprintf("every name of length 1..6 starting with %q", string(f))))
			}
		}
	}
	return out
}
