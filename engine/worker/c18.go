package main

import (
	"context"
	"encoding/json"
	"fmt"
	"net/http"
	"net/http/httptest"
	"sort"
	"strings"

	"github.com/creachadair/jrpc2"
	"github.com/creachadair/jrpc2/jhttp"
	"verif/vs"
)

// C18 — HTTP bridge: each caller gets exactly its own responses with its own ids.

func init() { register("C18", c18Scenarios) }

type httpResult struct {
	Status int
	Body   string
	CType  string
}

func doHTTP(h http.Handler, method, ctype, body string) httpResult {
	return doHTTPCtx(context.Background(), h, method, ctype, body)
}

func doHTTPCtx(ctx context.Context, h http.Handler, method, ctype, body string) httpResult {
	w := httptest.NewRecorder()
	r := httptest.NewRequest(method, "/", strings.NewReader(body)).WithContext(ctx)
	if ctype != "-" {
		r.Header.Set("Content-Type", ctype)
	}
	h.ServeHTTP(w, r)
	return httpResult{w.Code, w.Body.String(), w.Header().Get("Content-Type")}
}

// bridge member alphabet: text, and what the caller must get back for it
type bMember struct {
	JSON    string
	ID      string // own id text, "" if none
	Kind    string // call, note, invalid, unknown
	Tag     string // params tag echoed by the handler
	WantErr bool
}

func c18Members() []bMember {
	call := func(id, tag string) bMember {
		return bMember{JSON: fmt.Sprintf(`{"jsonrpc":"2.0","id":%s,"method":"echo","params":[%q]}`, id, tag), ID: id, Kind: "call", Tag: tag}
	}
	return []bMember{
		call("1", "a"), call("1.0", "b"), call(`"1"`, "c"), call("1e0", "d"), call("-0", "e"), call(`"é\n"`, "f"),
		{JSON: `{"jsonrpc":"2.0","method":"echo","params":["n"]}`, Kind: "note", Tag: "n"},
		{JSON: `{"jsonrpc":"1.0","id":5,"method":"echo","params":["x"]}`, ID: "5", Kind: "invalid", WantErr: true},
		{JSON: `{"jsonrpc":"1.0","method":"echo","params":["y"]}`, ID: "null", Kind: "invalid", WantErr: true},
		{JSON: `{"jsonrpc":"2.0","id":9,"method":"nope"}`, ID: "9", Kind: "unknown", WantErr: true},
		{JSON: `{"jsonrpc":"2.0","id":8}`, ID: "8", Kind: "invalid", WantErr: true},
		{JSON: `{"jsonrpc":"2.0"}`, ID: "null", Kind: "invalid", WantErr: true},
		{JSON: `{"jsonrpc":"2.0","method":"nope","params":["u"]}`, Kind: "unote"},                    // notification for an unknown method: no response, no handler
		{JSON: `{"jsonrpc":"2.0","id":null,"method":"echo","params":["z"]}`, Kind: "note", Tag: "z"}, // a notification spelled with a null id
		// invalid for an unknown extra member; the member names are unique markers: an error object is the
		// member's own, so it never mentions a marker of another member
		{JSON: `{"jsonrpc":"2.0","id":21,"method":"echo","params":["p"],"extraAAA":1}`, ID: "21", Kind: "invalid", WantErr: true},
		{JSON: `{"jsonrpc":"2.0","id":22,"method":"echo","params":["q"],"extraBBB":1}`, ID: "22", Kind: "invalid", WantErr: true},
		// request and reply fields mixed: invalid, whichever reply field it is
		{JSON: `{"jsonrpc":"2.0","id":23,"method":"echo","params":["r"],"result":1}`, ID: "23", Kind: "invalid", WantErr: true},
		{JSON: `{"jsonrpc":"2.0","id":24,"method":"echo","params":["s"],"error":{"code":1,"message":"m"}}`, ID: "24", Kind: "invalid", WantErr: true},
	}
}

// judgeBridgeReply compares one HTTP reply with what the members of the posted body require.
func judgeBridgeReply(ms []bMember, isArrayBody bool, res httpResult, handlerTags []string) []Viol {
	var v []Viol
	want := map[string]int{} // "id|result-or-error"
	nresp := 0
	var wantTags []string
	for _, m := range ms {
		switch m.Kind {
		case "call":
			want[m.ID+"|result:"+m.Tag]++
			nresp++
			wantTags = append(wantTags, m.Tag)
		case "note":
			wantTags = append(wantTags, m.Tag)
		case "invalid", "unknown":
			want[m.ID+"|error"]++
			nresp++
		}
	}
	Hit("C18.R1")
	if nresp == 0 {
		if res.Status != 204 || strings.TrimSpace(res.Body) != "" {
			v = append(v, Viol{"C18.R1", fmt.Sprintf("only notifications: want 204 with an empty body, got %d %q", res.Status, res.Body)})
		}
	} else {
		if res.Status != 200 {
			v = append(v, Viol{"C18.R1", fmt.Sprintf("want status 200, got %d %q", res.Status, res.Body)})
		} else {
			members, isArr, err := parseRecord([]byte(res.Body))
			if err != nil {
				v = append(v, Viol{"C18.R1", "reply body is not JSON-RPC: " + res.Body})
			} else {
				if (nresp == 1) == isArr {
					v = append(v, Viol{"C18.R1", fmt.Sprintf("%d response(s) must be sent as a single object iff there is exactly one; got array=%v", nresp, isArr)})
				}
				got := map[string]int{}
				for _, m := range members {
					if err := wellFormedResponse(m); err != nil {
						v = append(v, Viol{"C18.R1", err.Error()})
					}
					for _, mk := range []string{"extraAAA", "extraBBB"} {
						if !strings.Contains(string(m.Raw), mk) {
							continue
						}
						own := false
						for _, pm := range ms {
							if pm.ID == m.ID() && strings.Contains(pm.JSON, mk) {
								own = true
							}
						}
						if !own {
							v = append(v, Viol{"C18.R2", fmt.Sprintf("the response with id %s mentions %q, which occurs only in another member (or another request): not this member's own error object: %s", m.ID(), mk, m.Raw)})
						}
					}
					if m.Has("result") {
						var tag string
						json.Unmarshal(m.Fields["result"], &tag)
						got[m.ID()+"|result:"+tag]++
					} else {
						got[m.ID()+"|error"]++
					}
				}
				Hit("C18.R2")
				var keys []string
				for k := range want {
					keys = append(keys, k)
				}
				for k := range got {
					if _, ok := want[k]; !ok {
						keys = append(keys, k)
					}
				}
				sort.Strings(keys)
				for _, k := range keys {
					if want[k] != got[k] {
						v = append(v, Viol{"C18.R2", fmt.Sprintf("response (own id text | outcome) %q: expected %d, got %d; body %s", k, want[k], got[k], res.Body)})
					}
				}
			}
		}
	}
	Hit("C18.R5")
	sort.Strings(wantTags)
	gt := append([]string(nil), handlerTags...)
	sort.Strings(gt)
	if strings.Join(wantTags, ",") != strings.Join(gt, ",") {
		v = append(v, Viol{"C18.R5", fmt.Sprintf("handlers ran for %v, the valid requests were %v (each exactly once, none for invalid members)", gt, wantTags)})
	}
	return v
}

func newBridge(tags *[]string, yield bool) jhttp.Bridge {
	hd := func(ctx context.Context, req *jrpc2.Request) (any, error) {
		var p []string
		req.UnmarshalParams(&p)
		tag := ""
		if len(p) > 0 {
			tag = p[0]
		}
		if yield {
			vs.Event("h", tag)
		}
		*tags = append(*tags, tag)
		return tag, nil
	}
	return jhttp.NewBridge(assignerFunc(func(ctx context.Context, m string) jrpc2.Handler {
		if m == "echo" {
			return hd
		}
		return nil
	}), &jhttp.BridgeOptions{Server: &jrpc2.ServerOptions{Concurrency: 2}})
}

// c18Bodies: one caller, every body of <=3 members over the alphabet, plus transport-level variants.
func c18Bodies(maxLen int) *Scenario {
	return &Scenario{
		Name:   fmt.Sprintf("single caller: every body of <=%d members over %d member kinds (colliding and exotic ids), methods and content types", maxLen, len(c18Members())),
		Params: map[string]any{"members": len(c18Members()), "max_members": maxLen},
		Seq: func(r *SeqRun) {
			mem := c18Members()
			type body struct {
				text    string
				members []bMember
				isArr   bool
			}
			var bodies []body
			for _, m := range mem {
				bodies = append(bodies, body{m.JSON, []bMember{m}, false})
			}
			var gen func(cur []int)
			gen = func(cur []int) {
				if len(cur) > 0 {
					var parts []string
					var ms []bMember
					for _, i := range cur {
						parts = append(parts, mem[i].JSON)
						ms = append(ms, mem[i])
					}
					bodies = append(bodies, body{"[" + strings.Join(parts, ",") + "]", ms, true})
				}
				if len(cur) < maxLen {
					for i := range mem {
						gen(append(cur, i))
					}
				}
			}
			gen(nil)
			// JSON white space (SP, HT, LF, CR) around a body and between its tokens changes nothing
			nb := len(bodies)
			for bi := 0; bi < nb; bi++ {
				bd := bodies[bi]
				if len(bd.members) > 1 && bi%16 != 0 {
					continue
				}
				for _, w := range []string{" ", "\t", "\n", "\r", "\r\n", " \r\n\t "} {
					bodies = append(bodies, body{w + bd.text, bd.members, bd.isArr}, body{bd.text + w, bd.members, bd.isArr})
					if bd.isArr {
						bodies = append(bodies, body{"[" + w + strings.TrimSuffix(strings.TrimPrefix(bd.text, "["), "]") + w + "]", bd.members, true})
					}
				}
			}
			run := func(f func(b jhttp.Bridge, tags *[]string)) *vs.Exec {
				return vs.Run(nil, func() {
					var tags []string
					b := newBridge(&tags, false)
					f(b, &tags)
					b.Close()
				})
			}
			// bodies are posted in chunks to one bridge each (the bridge is reused across requests, like a real server)
			for start := 0; start < len(bodies); start += 60 {
				if r.Expired() {
					return
				}
				end := start + 60
				if end > len(bodies) {
					end = len(bodies)
				}
				chunk := bodies[start:end]
				x := run(func(b jhttp.Bridge, tags *[]string) {
					for _, bd := range chunk {
						*tags = nil
						res := doHTTP(b, "POST", "application/json", bd.text)
						vs.AwaitQuiescence() // notification handlers run after the HTTP reply: judge at a quiescent point
						cl := "mix"
						r.Case(fmt.Sprintf("body/%d/%s/%d", len(bd.members), cl, res.Status), true)
						for _, vi := range judgeBridgeReply(bd.members, bd.isArr, res, *tags) {
							r.Fail(vi.Rule, bd.text, vi.Msg, "")
						}
					}
				})
				r.Calls(x.Steps)
				if x.Outcome != "ok" {
					r.Fail("G1", fmt.Sprintf("bodies %d..%d", start, end), "bridge run ended with "+x.Outcome+" "+firstLine(x.Detail)+" "+panicSite(x.Stack), "")
				}
			}
			// transport level
			x := run(func(b jhttp.Bridge, tags *[]string) {
				okBody := mem[0].JSON
				for _, m := range []string{"GET", "PUT", "DELETE", "HEAD"} {
					*tags = nil
					res := doHTTP(b, m, "application/json", okBody)
					Hit("C18.R4")
					r.Case("method/"+m, true)
					if res.Status != 405 || len(*tags) != 0 {
						r.Fail("C18.R4", m+" "+okBody, fmt.Sprintf("non-POST must get 405 and run no handler: status %d, handlers %v", res.Status, *tags), "")
					}
				}
				for _, ct := range []struct {
					v    string
					want int
				}{{"application/json", 200}, {"application/json; charset=utf-8", 200}, {"application/json; charset=utf8", 200}, {"application/json; charset=latin1", 415},
					{"application/json; charset=UTF-16", 415}, {"text/plain", 415}, {"-", 415}, {"", 415}, {"json", 415}, {"application/jsonx", 415}, {"APPLICATION/JSON", 200}} {
					*tags = nil
					res := doHTTP(b, "POST", ct.v, okBody)
					Hit("C18.R4")
					r.Case(fmt.Sprintf("ctype/%d", ct.want), true)
					if ct.want == 415 && (res.Status != 415 || len(*tags) != 0) {
						r.Fail("C18.R4", "Content-Type "+ct.v, fmt.Sprintf("want 415 and no handler: status %d, handlers %v", res.Status, *tags), "")
					}
					if ct.want == 200 && res.Status != 200 {
						r.Fail("C18.R4", "Content-Type "+ct.v, fmt.Sprintf("JSON content type rejected with %d", res.Status), "")
					}
				}
				for _, bad := range []string{"", "{", "[1,", "not json", `{"jsonrpc":"2.0","id":1,"method":"echo"`, "\x00"} {
					*tags = nil
					res := doHTTP(b, "POST", "application/json", bad)
					Hit("C18.R4")
					r.Case("nonjson", true)
					if res.Status < 400 || len(*tags) != 0 {
						r.Fail("C18.R4", fmt.Sprintf("body %q", bad), fmt.Sprintf("a body that is not valid JSON must get an error status and run no handler: status %d, handlers %v", res.Status, *tags), "")
					}
				}
				*tags = nil
				res := doHTTP(b, "POST", "application/json", "[]")
				r.Case("emptyarray", true)
				if !(res.Status == 204 || res.Status >= 400) || len(*tags) != 0 {
					r.Fail("C18.R4", "[]", fmt.Sprintf("empty batch: status %d handlers %v", res.Status, *tags), "")
				}
			})
			r.Calls(x.Steps)
			if x.Outcome != "ok" {
				r.Fail("G1", "transport variants", "bridge run ended with "+x.Outcome+" "+firstLine(x.Detail), "")
			}
			r.Sample(map[string]any{"body": "[" + mem[1].JSON + "," + mem[6].JSON + "," + mem[7].JSON + "]", "expect": "200, array of 2: result for id 1.0 and an error for id 5"})
		},
	}
}

// c18Concurrent: several HTTP callers posting concurrently to one bridge.
func c18Concurrent(bodyIdx []int, b Bounds) *Scenario { return c18ConcurrentX(bodyIdx, false, b) }

// hangup: caller 0 goes away (its request context ends) at an arbitrary moment; what it gets is
// its own business, the other callers must be served as if it had not been there.
func c18ConcurrentX(bodyIdx []int, hangup bool, b Bounds) *Scenario {
	mem := c18Members()
	type cbody struct {
		text    string
		members []bMember
		isArr   bool
	}
	mk := func(caller int, kind int) cbody {
		tag := func(s string) string { return fmt.Sprintf("%s-c%d", s, caller) }
		call := func(id, t string) bMember {
			return bMember{JSON: fmt.Sprintf(`{"jsonrpc":"2.0","id":%s,"method":"echo","params":[%q]}`, id, tag(t)), ID: id, Kind: "call", Tag: tag(t)}
		}
		note := bMember{JSON: fmt.Sprintf(`{"jsonrpc":"2.0","method":"echo","params":[%q]}`, tag("n")), Kind: "note", Tag: tag("n")}
		switch kind {
		case 0:
			m := call("1", "a")
			return cbody{m.JSON, []bMember{m}, false}
		case 1:
			a, c := call("1", "a"), call("2", "b")
			return cbody{"[" + a.JSON + "," + note.JSON + "," + c.JSON + "]", []bMember{a, note, c}, true}
		case 2:
			a := call("1", "a")
			return cbody{"[" + mem[7].JSON + "," + a.JSON + "]", []bMember{mem[7], a}, true}
		default:
			return cbody{note.JSON, []bMember{note}, false}
		}
	}
	names := []string{"call(id 1)", "[call 1,note,call 2]", "[invalid,call 1]", "note"}
	var desc []string
	for _, k := range bodyIdx {
		desc = append(desc, names[k])
	}
	return &Scenario{
		Name:   fmt.Sprintf("%d concurrent HTTP callers: %s%s", len(bodyIdx), strings.Join(desc, " | "), map[bool]string{true: " (caller 0 hangs up)", false: ""}[hangup]),
		Params: map[string]any{"callers": len(bodyIdx), "bodies": desc, "caller0_hangs_up": hangup},
		Bounds: b,
		New: func() *Instance {
			results := make([]httpResult, len(bodyIdx))
			var tags []string
			body := func() {
				br := newBridge(&tags, true)
				// a request served earlier on the same bridge (state left behind by it must not leak into later ones)
				if !hangup {
					doHTTP(br, "POST", "application/json", `[{"jsonrpc":"2.0","id":77,"method":"echo","params":["warm-cW"]},{"jsonrpc":"2.0","id":78,"method":"echo","params":["warm2-cW"]}]`)
					doHTTP(br, "POST", "application/json", `{"jsonrpc":"2.0","id":1,`) // a rejected request is part of the history too
					doHTTP(br, "POST", "application/json", `[]`)
					doHTTP(br, "GET", "application/json", ``)
					vs.AwaitQuiescence()
				}
				var j Join
				ctx0, cancel0 := cancelCauseCtx()
				defer cancel0()
				if hangup {
					j.Go("hangup", func() { vs.Event("env", "hangup"); cancel0() })
				}
				for c, k := range bodyIdx {
					c, k := c, k
					j.Go(fmt.Sprintf("http%d", c), func() {
						ctx := context.Background()
						if hangup && c == 0 {
							ctx = ctx0
						}
						results[c] = doHTTPCtx(ctx, br, "POST", "application/json", mk(c, k).text)
						vs.Yield("http-ret")
						vs.Note("http", fmt.Sprint(c), fmt.Sprint(results[c].Status), results[c].Body)
					})
				}
				j.Wait()
				vs.AwaitQuiescence()
				br.Close()
			}
			check := func(x *vs.Exec) []Viol {
				v := genericRules(x, nil)
				if x.Outcome != "ok" {
					return v
				}
				for c, k := range bodyIdx {
					if hangup && c == 0 {
						// what the caller that went away receives is its own business, but its valid requests
						// were posted: each still runs its handler exactly once
						var want, got []string
						for _, m := range mk(c, k).members {
							if m.Kind == "call" || m.Kind == "note" {
								want = append(want, m.Tag)
							}
						}
						for _, t := range tags {
							if strings.HasSuffix(t, fmt.Sprintf("-c%d", c)) {
								got = append(got, t)
							}
						}
						sort.Strings(want)
						sort.Strings(got)
						Hit("C18.R5")
						if strings.Join(want, ",") != strings.Join(got, ",") {
							v = append(v, Viol{"C18.R5", fmt.Sprintf("caller %d went away after posting: handlers ran for %v, its valid requests were %v (each exactly once)", c, got, want)})
						}
						continue
					}
					bd := mk(c, k)
					var mine []string
					for _, t := range tags {
						if strings.HasSuffix(t, fmt.Sprintf("-c%d", c)) {
							mine = append(mine, t)
						}
					}
					for _, vi := range judgeBridgeReply(bd.members, bd.isArr, results[c], mine) {
						v = append(v, Viol{vi.Rule, fmt.Sprintf("caller %d posted %s: %s", c, bd.text, vi.Msg)})
					}
				}
				return v
			}
			return &Instance{Body: body, Check: check}
		},
	}
}

// c18Push: a bridge whose server may push (BridgeOptions.Server.AllowPush) and whose client answers
// callbacks (BridgeOptions.Client.OnCallback). The handler of a bridged call asks the client a question
// with a context that ends before the hook has answered; the hook's answer (a result or an error) then
// arrives late, while the call that asked is still in flight - and the server's callback ids and the
// bridge client's request ids are both small integers starting at 1. The HTTP caller must still get the
// response to its own call and nothing else.
func c18Push(hookFails bool, b Bounds) *Scenario {
	return &Scenario{
		Name:   fmt.Sprintf("push-enabled bridge: the handler's callback times out, the hook answers late (error=%v) while the call is still in flight", hookFails),
		Params: map[string]any{"hook_fails": hookFails},
		Bounds: b,
		New: func() *Instance {
			var res httpResult
			body := func() {
				gates := NewGates()
				cbctx, expire := cancelCauseCtx()
				hd := func(ctx context.Context, req *jrpc2.Request) (any, error) {
					if req.Method() == "echo" {
						return "echo", nil
					}
					_, err := jrpc2.ServerFromContext(ctx).Callback(cbctx, "question", nil)
					vs.Yield("cb-ret")
					vs.Note("cb-ret", errStr(err))
					gates.Wait("finish")
					return "done", nil
				}
				br := jhttp.NewBridge(assignerFunc(func(ctx context.Context, m string) jrpc2.Handler { return hd }), &jhttp.BridgeOptions{
					Server: &jrpc2.ServerOptions{Concurrency: 2, AllowPush: true},
					Client: &jrpc2.ClientOptions{OnCallback: func(ctx context.Context, req *jrpc2.Request) (any, error) {
						gates.Wait("hook")
						if hookFails {
							return nil, jrpc2.Errorf(jrpc2.Code(55), "no answer")
						}
						return "answer", nil
					}},
				})
				var j Join
				j.Go("http0", func() {
					res = doHTTP(br, "POST", "application/json", `{"jsonrpc":"2.0","id":"A","method":"ask"}`)
					vs.Yield("http-ret")
					vs.Note("http", fmt.Sprint(res.Status), res.Body)
				})
				j.Go("controller", func() {
					vs.AwaitQuiescence() // the handler waits in Callback, the hook is parked
					expire()
					vs.AwaitQuiescence() // Callback has returned with the context's error; the handler is parked
					gates.Open("hook")
					vs.AwaitQuiescence() // the late answer has reached the server
					r2 := doHTTP(br, "POST", "application/json", `{"jsonrpc":"2.0","id":"B","method":"echo"}`)
					vs.Yield("http-ret")
					vs.Note("http2", fmt.Sprint(r2.Status), r2.Body)
					gates.Open("finish")
				})
				j.Wait()
				vs.AwaitQuiescence()
				br.Close()
			}
			check := func(x *vs.Exec) []Viol {
				v := genericRules(x, nil)
				if x.Outcome != "ok" {
					return v
				}
				Hit("C18.R1")
				for _, w := range []struct{ ev, id, want string }{{"http", `"A"`, `"done"`}, {"http2", `"B"`, `"echo"`}} {
					i := findEv(x, 0, w.ev)
					if i < 0 {
						v = append(v, Viol{"C18.R1", "the POST with id " + w.id + " was never answered"})
						continue
					}
					ms, isArr, err := parseRecord([]byte(x.Log[i].Arg(1)))
					if x.Log[i].Arg(0) != "200" || err != nil || isArr || len(ms) != 1 || ms[0].ID() != w.id || !ms[0].Has("result") || ms[0].Str("result") != w.want {
						v = append(v, Viol{"C18.R1", fmt.Sprintf("the caller that posted the call with id %s received status %s body %s, want 200 and the result %s of its own call", w.id, x.Log[i].Arg(0), x.Log[i].Arg(1), w.want)})
					}
				}
				return v
			}
			return &Instance{Body: body, Check: check}
		},
	}
}

func c18Scenarios(tier string) []*Scenario {
	if tier == "quick" {
		return []*Scenario{
			c18Bodies(2),
			c18Concurrent([]int{0, 0}, Bounds{1, 1, 1}), // one environment deviation: e.g. a non-blocking wake-up that finds its receiver not parked yet
			c18Concurrent([]int{0, 1}, Bounds{1, 1, 0}),
			c18Concurrent([]int{2, 0}, Bounds{1, 1, 0}),
			c18Concurrent([]int{0, 3}, Bounds{1, 1, 0}),
			c18ConcurrentX([]int{0, 0}, true, Bounds{1, 1, 0}),
			c18ConcurrentX([]int{1, 0}, true, Bounds{1, 1, 0}), // the caller that hangs up had a batch with two calls in flight
			c18Push(true, Bounds{1, 1, 0}), c18Push(false, Bounds{1, 1, 0}),
		}
	}
	out := []*Scenario{c18Bodies(3)}
	for a := 0; a < 4; a++ {
		for b := a; b < 4; b++ {
			out = append(out, c18Concurrent([]int{a, b}, Bounds{2, 1, 0}))
		}
	}
	out = append(out, c18ConcurrentX([]int{0, 0}, true, Bounds{2, 2, 0}), c18ConcurrentX([]int{1, 0}, true, Bounds{2, 1, 0}), c18ConcurrentX([]int{0, 1}, true, Bounds{2, 1, 0}))
	out = append(out, c18Concurrent([]int{0, 0}, Bounds{2, 2, 0}), c18Concurrent([]int{0, 0, 0}, Bounds{1, 1, 0}), c18Concurrent([]int{0, 1, 2}, Bounds{1, 0, 0}))
	out = append(out, c18Concurrent([]int{0, 0}, Bounds{1, 1, 1}), c18Concurrent([]int{0, 1}, Bounds{1, 1, 1}), c18Concurrent([]int{0, 0}, Bounds{2, 1, 1}))
	out = append(out, c18Push(true, Bounds{2, 2, 0}), c18Push(false, Bounds{2, 2, 0}))
	return out
}
