package main

import (
	"bytes"
	"context"
	"encoding/base64"
	"encoding/json"
	"errors"
	"fmt"
	"io"
	"net/http"
	"net/http/httptest"
	"net/url"
	"reflect"
	"strconv"
	"strings"

	"github.com/creachadair/jrpc2"
	"github.com/creachadair/jrpc2/jhttp"
	"verif/vs"
)

// C19 — HTTP Getter, query parsing and the HTTP client channel.

func init() { register("C19", c19Scenarios) }

// refQueryValue types one query value by the documented rules (three-valued).
type qref struct {
	Kind    string // string, int, float, bool, null, bytes, literal, error, unspec
	Str     string
	Int     int64
	Float   float64
	Bool    bool
	Bytes   []byte
	Options []string // for unspec: admissible kinds
}

func allDigits(s string) bool {
	if s == "" {
		return false
	}
	for i := 0; i < len(s); i++ {
		if s[i] < '0' || s[i] > '9' {
			return false
		}
	}
	return true
}

func refQuery(v string) qref {
	// double-quoted: JSON string
	if len(v) >= 2 && v[0] == '"' && v[len(v)-1] == '"' {
		var s string
		if json.Unmarshal([]byte(v), &s) == nil {
			return qref{Kind: "string", Str: s}
		}
		return qref{Kind: "error"}
	}
	if v != "" && (v[0] == '"' || v[len(v)-1] == '"') {
		return qref{Kind: "unspec", Options: []string{"error", "literal"}} // unbalanced quote: not documented
	}
	body := v
	if body != "" && (body[0] == '+' || body[0] == '-') {
		body = body[1:]
	}
	if allDigits(body) {
		if n, err := strconv.ParseInt(v, 10, 64); err == nil {
			return qref{Kind: "int", Int: n}
		}
		// out of the int64 range: a number by the rule, representation not pinned down
		if _, err := strconv.ParseFloat(v, 64); err != nil {
			// beyond float64 as well (309 digits and more): no Go number the documentation names can hold
			// it, so the literal string is as good; what must not come out is a value JSON cannot carry
			return qref{Kind: "unspec", Options: []string{"int", "float", "literal"}}
		}
		return qref{Kind: "unspec", Options: []string{"int", "float"}} // but a number, not the literal string
	}
	if i := strings.IndexByte(body, '.'); i >= 0 {
		a, b := body[:i], body[i+1:]
		if allDigits(a) && allDigits(b) {
			if _, err := strconv.ParseFloat(v, 64); err != nil {
				return qref{Kind: "unspec", Options: []string{"float", "literal"}} // beyond float64, as above
			}
			return qref{Kind: "float"}
		}
		if (a == "" || allDigits(a)) && (b == "" || allDigits(b)) && (a != "" || b != "") {
			return qref{Kind: "unspec", Options: []string{"float", "literal"}} // ".5" / "5."
		}
	}
	switch v {
	case "true":
		return qref{Kind: "bool", Bool: true}
	case "false":
		return qref{Kind: "bool", Bool: false}
	case "null":
		return qref{Kind: "null"}
	}
	if len(v) >= 2 && v[0] == '\'' && v[len(v)-1] == '\'' {
		trim := strings.TrimRight(v[1:len(v)-1], "=")
		if dec, err := base64.RawStdEncoding.DecodeString(trim); err == nil {
			return qref{Kind: "bytes", Bytes: dec}
		}
		return qref{Kind: "unspec", Options: []string{"error", "literal"}}
	}
	if v != "" && (v[0] == '\'' || v[len(v)-1] == '\'') {
		return qref{Kind: "unspec", Options: []string{"error", "literal"}}
	}
	return qref{Kind: "literal", Str: v}
}

func kindOf(x any) string {
	switch t := x.(type) {
	case nil:
		return "null"
	case string:
		return "string"
	case int64, int:
		return "int"
	case float64:
		return "float"
	case bool:
		return "bool"
	case []byte:
		return "bytes"
	default:
		return fmt.Sprintf("%T", t)
	}
}

// judgeQuery checks ParseQuery / ParseBasic on one (path, query value).
func judgeQuery(r *SeqRun, val string) {
	u := "/m/?k=" + url.QueryEscape(val)
	input := fmt.Sprintf("query value %q", val)
	// ParseQuery
	var method string
	var params any
	var err error
	p := guarded(func() { method, params, err = jhttp.ParseQuery(httptest.NewRequest("GET", u, nil)) })
	r.Calls(1)
	ref := refQuery(val)
	r.Case("query/"+ref.Kind, ref.Kind != "literal")
	Hit("C19.R1")
	if p != "" {
		r.Fail("C19.R1", input, "ParseQuery panicked: "+p, "")
		return
	}
	if err == nil {
		Hit("C19.R2")
		if method != "m" {
			r.Fail("C19.R2", input, fmt.Sprintf("method %q, want the path trimmed of slashes (\"m\")", method), "")
		}
		Hit("C19.R3")
		if _, merr := json.Marshal(params); merr != nil {
			r.Fail("C19.R3", input, fmt.Sprintf("parameters are not JSON-marshalable: %v (value %#v)", merr, params), "")
		}
		mp, ok := params.(map[string]any)
		if !ok {
			r.Fail("C19.R4", input, fmt.Sprintf("params have type %T, want map[string]any", params), "")
			return
		}
		got := mp["k"]
		gk := kindOf(got)
		Hit("C19.R4")
		okKind := false
		switch ref.Kind {
		case "unspec":
			for _, o := range ref.Options {
				if o == gk || (o == "literal" && gk == "string") {
					okKind = true
				}
			}
			if !okKind {
				r.Fail("C19.R4", input, fmt.Sprintf("typed as %s (%#v)", gk, got), "")
			}
		case "error":
			r.Fail("C19.R4", input, fmt.Sprintf("an invalid double-quoted string was accepted as %#v", got), "")
		case "literal":
			if gk != "string" || got.(string) != val {
				r.Fail("C19.R4", input, fmt.Sprintf("matches none of the documented forms, so it is the literal string; ParseQuery typed it as %s (%#v)", gk, got), "")
			}
		case "string":
			if gk != "string" || got.(string) != ref.Str {
				r.Fail("C19.R4", input, fmt.Sprintf("want JSON string %q, got %#v", ref.Str, got), "")
			}
		case "int":
			if gk != "int" || !reflect.DeepEqual(got, ref.Int) {
				r.Fail("C19.R4", input, fmt.Sprintf("want int64 %d, got %s %#v", ref.Int, gk, got), "")
			}
		case "float":
			if gk != "float" {
				r.Fail("C19.R4", input, fmt.Sprintf("want float64, got %s %#v", gk, got), "")
			}
		case "bool":
			if gk != "bool" || got.(bool) != ref.Bool {
				r.Fail("C19.R4", input, fmt.Sprintf("want %v, got %#v", ref.Bool, got), "")
			}
		case "null":
			if got != nil {
				r.Fail("C19.R4", input, fmt.Sprintf("want nil, got %#v", got), "")
			}
		case "bytes":
			if b, ok := got.([]byte); !ok || !bytes.Equal(b, ref.Bytes) {
				r.Fail("C19.R4", input, fmt.Sprintf("want bytes %q, got %#v", ref.Bytes, got), "")
			}
		}
	} else if ref.Kind != "error" && ref.Kind != "unspec" {
		r.Fail("C19.R4", input, "ParseQuery failed on a value the documentation covers: "+err.Error(), "")
	}
	// ParseBasic: every value is a string
	p = guarded(func() { method, params, err = jhttp.ParseBasic(httptest.NewRequest("GET", u, nil)) })
	r.Calls(1)
	if p != "" {
		r.Fail("C19.R1", input, "ParseBasic panicked: "+p, "")
	} else if err == nil {
		mp, _ := params.(map[string]string)
		if method != "m" || mp["k"] != val {
			r.Fail("C19.R2", input, fmt.Sprintf("ParseBasic: method %q params %#v", method, params), "")
		}
	}
}

func c19Values(maxLen int, first byte) *Scenario {
	alpha := []byte(`"'+-01.ex_a \`)
	return &Scenario{
		Name:   fmt.Sprintf("query values: every string of length<=%d over {\" ' + - 0 1 . e x _ a SP \\} starting with %q", maxLen, string(first)),
		Params: map[string]any{"alphabet": string(alpha), "max_length": maxLen, "first": string(first)},
		Seq: func(r *SeqRun) {
			var rec func(cur []byte)
			rec = func(cur []byte) {
				if r.Expired() {
					return
				}
				judgeQuery(r, string(cur))
				if len(cur) < maxLen {
					for _, c := range alpha {
						rec(append(append([]byte(nil), cur...), c))
					}
				}
			}
			rec([]byte{first})
			r.Sample(map[string]any{"value": `-1.e`, "typed_by_rule": refQuery("-1.e").Kind})
		},
	}
}

func c19Words() *Scenario {
	alpha := []byte(`"'+-01.ex_a \`)
	return &Scenario{
		Name:   "query values: number-like and constant-like words with every one-character prefix/suffix; paths; raw query strings",
		Params: map[string]any{},
		Seq: func(r *SeqRun) {
			words := []string{"inf", "Inf", "+Inf", "-inf", "infinity", "Infinity", "nan", "NaN", "0x10", "0X1F", "0x1p4", "0x1p-2", "1_0", "0b11", "0o17", "1e3", "1E3", "1e+3", "-1e-3", ".5", "5.", "-.5", "+5.",
				"true", "TRUE", "True", "false", "FALSE", "null", "Null", "NULL", "", "9223372036854775807", "9223372036854775808", "-9223372036854775808", "-9223372036854775809", "007", "-0", "+0", "1.50", "00.5",
				"1.2.3", "--1", "+-1", "1-", "1+", strings.Repeat("9", 308), strings.Repeat("9", 309), strings.Repeat("9", 400), "-" + strings.Repeat("9", 400), "+" + strings.Repeat("1", 310), strings.Repeat("9", 400) + ".5", "0." + strings.Repeat("0", 400) + "1", "1" + strings.Repeat("0", 308) + ".0", "17976931348623157" + strings.Repeat("0", 292), "17976931348623159" + strings.Repeat("0", 292), "'aGVsbG8'", "'aGVsbG8='", "'!!'", "''", "\"\"", "\"a\\nb\"", "\"\\u00e9\"", "\"\\x\"", "\"a\"b\"", "1 ", " 1", "1\n", "١", "１"}
			for _, w := range words {
				judgeQuery(r, w)
				for _, c := range alpha {
					judgeQuery(r, string(c)+w)
					judgeQuery(r, w+string(c))
				}
			}
			// paths
			pal := []string{"/", "a", "%2F", "%20"}
			var recp func(cur string, n int)
			recp = func(cur string, n int) {
				if n > 0 {
					target := "/" + cur + "?k=1"
					var req *http.Request
					if pp := guarded(func() { req = httptest.NewRequest("GET", target, nil) }); pp == "" {
						for _, f := range []struct {
							n string
							f func(*http.Request) (string, any, error)
						}{{"ParseQuery", jhttp.ParseQuery}, {"ParseBasic", jhttp.ParseBasic}} {
							var method string
							var params any
							var err error
							rq := req.Clone(context.Background())
							p := guarded(func() { method, params, err = f.f(rq) })
							r.Calls(1)
							r.Case("path/"+f.n+fmt.Sprint(err == nil), true)
							if p != "" {
								r.Fail("C19.R1", target, f.n+" panicked: "+p, "")
								continue
							}
							want := strings.Trim(req.URL.Path, "/")
							Hit("C19.R2")
							if err == nil && (method == "" || method != want) {
								r.Fail("C19.R2", target, fmt.Sprintf("%s: method %q, want %q (non-empty)", f.n, method, want), "")
							}
							if err != nil && want != "" {
								r.Fail("C19.R2", target, fmt.Sprintf("%s failed on a non-empty path: %v", f.n, err), "")
							}
							if err == nil {
								if _, merr := json.Marshal(params); merr != nil {
									r.Fail("C19.R3", target, "params not marshalable", "")
								}
							}
						}
					}
				}
				if n < 4 {
					for _, a := range pal {
						recp(cur+a, n+1)
					}
				}
			}
			recp("", 0)
			// raw (undecoded) query strings: totality
			qal := []string{"%", "&", "=", ";", "+", "a", `"`, "'", "%41", "%zz"}
			var recq func(cur string, n int)
			recq = func(cur string, n int) {
				target := "/m?" + cur
				var req *http.Request
				if pp := guarded(func() { req = httptest.NewRequest("GET", target, nil) }); pp == "" {
					for _, f := range []func(*http.Request) (string, any, error){jhttp.ParseQuery, jhttp.ParseBasic} {
						var method string
						var params any
						var err error
						rq := req.Clone(context.Background())
						p := guarded(func() { method, params, err = f(rq) })
						r.Calls(1)
						r.Case(fmt.Sprintf("rawquery/%v", err == nil), true)
						if p != "" {
							r.Fail("C19.R1", target, "panic: "+p, "")
						} else if err == nil {
							if method != "m" {
								r.Fail("C19.R2", target, fmt.Sprintf("method %q", method), "")
							}
							if _, merr := json.Marshal(params); merr != nil {
								r.Fail("C19.R3", target, fmt.Sprintf("params not marshalable: %v", merr), "")
							}
						}
					}
				}
				if n < 4 {
					for _, a := range qal {
						recq(cur+a, n+1)
					}
				}
			}
			recq("", 0)
			r.Sample(map[string]any{"value": "0x1p4", "typed_by_rule": "literal string"})
		},
	}
}

// c19Getter: status / body table of the Getter.
func c19Getter() *Scenario {
	return &Scenario{
		Name: "Getter: status and body for ok / unparsable URL / unknown method / failing method / unmarshalable params",
		Seq: func(r *SeqRun) {
			cases := []struct {
				target string
				status []int
				what   string
			}{
				{"/echo?a=1&b=%22s%22", []int{200}, "ok"},
				{"/echo", []int{200}, "ok, no params"},
				{"/echo/?x=true&y=null&z='aGk='", []int{200}, "ok"},
				{"/nope?a=1", []int{404}, "method not found"},
				{"/fail?a=1", []int{500}, "handler error"},
				{"/?a=1", []int{400}, "empty method"},
				{"/echo?a=%22unterminated", []int{400}, "bad string"},
				{"/echo?a=%zz", []int{400}, "bad escape"},
				{"/echo?a=NaN", []int{200, 400}, "NaN is not a documented number: literal string, or rejected"},
				{"/echo?a=Inf&b=-inf", []int{200, 400}, "Inf is not a documented number"},
				{"/echo?a=1e400", []int{200, 400}, "out of range exponent form"},
				{"/rpc.serverInfo", []int{200}, "builtin"},
			}
			x := vs.Run(nil, func() {
				hd := func(ctx context.Context, req *jrpc2.Request) (any, error) {
					if req.Method() == "fail" {
						return nil, jrpc2.Errorf(77, "boom")
					}
					var v any
					req.UnmarshalParams(&v)
					return v, nil
				}
				g := jhttp.NewGetter(assignerFunc(func(ctx context.Context, m string) jrpc2.Handler {
					if m == "echo" || m == "fail" {
						return hd
					}
					return nil
				}), &jhttp.GetterOptions{ParseRequest: jhttp.ParseQuery})
				for _, c := range cases {
					w := httptest.NewRecorder()
					var req *http.Request
					if pp := guarded(func() { req = httptest.NewRequest("GET", c.target, nil) }); pp != "" {
						// not a URL the standard library can even represent: build it by hand
						req = httptest.NewRequest("GET", "/echo", nil)
						req.URL.RawQuery = strings.SplitN(c.target, "?", 2)[1]
					}
					p := guarded(func() { g.ServeHTTP(w, req) })
					r.Calls(1)
					r.Case(fmt.Sprintf("getter/%d", w.Code), true)
					Hit("C19.R5")
					if p != "" {
						r.Fail("C19.R1", c.target, "Getter panicked: "+p, "")
						continue
					}
					okStatus := false
					for _, s := range c.status {
						if w.Code == s {
							okStatus = true
						}
					}
					if !okStatus {
						r.Fail("C19.R5", c.target, fmt.Sprintf("%s: status %d, want one of %v; body %s", c.what, w.Code, c.status, w.Body.String()), "")
					}
					if !json.Valid(w.Body.Bytes()) {
						r.Fail("C19.R5", c.target, fmt.Sprintf("status %d body is not valid JSON: %q", w.Code, w.Body.String()), "")
					} else if w.Code != 200 {
						var eo struct {
							Code    *int   `json:"code"`
							Message string `json:"message"`
						}
						if json.Unmarshal(w.Body.Bytes(), &eo) != nil || eo.Code == nil {
							r.Fail("C19.R5", c.target, fmt.Sprintf("status %d body is not a JSON error object: %s", w.Code, w.Body.String()), "")
						}
					}
				}
				g.Close()
				// the Getter's server options are honoured: with the built-ins disabled rpc.serverInfo is just an unknown method
				g2 := jhttp.NewGetter(assignerFunc(func(ctx context.Context, m string) jrpc2.Handler { return nil }),
					&jhttp.GetterOptions{Server: &jrpc2.ServerOptions{DisableBuiltin: true}})
				w2 := httptest.NewRecorder()
				g2.ServeHTTP(w2, httptest.NewRequest("GET", "/rpc.serverInfo", nil))
				r.Case("getter/options", true)
				if w2.Code != 404 {
					r.Fail("C19.R5", "/rpc.serverInfo with Server.DisableBuiltin", fmt.Sprintf("status %d, want 404 (the Getter must pass its server options on)", w2.Code), "")
				}
				g2.Close()
				// without a ParseRequest hook a Getter uses ParseBasic: every query value reaches the handler as a string
				{
					var seen string
					g3 := jhttp.NewGetter(assignerFunc(func(ctx context.Context, m string) jrpc2.Handler {
						return func(ctx context.Context, req *jrpc2.Request) (any, error) { seen = req.ParamString(); return "ok", nil }
					}), nil)
					w4 := httptest.NewRecorder()
					g3.ServeHTTP(w4, httptest.NewRequest("GET", "/m?first=1&second=true", nil))
					r.Case("getter/default-parser", true)
					var got map[string]any
					if w4.Code != 200 || json.Unmarshal([]byte(seen), &got) != nil || got["first"] != "1" || got["second"] != "true" {
						r.Fail("C19.R5", "default Getter GET /m?first=1&second=true", fmt.Sprintf("status %d, handler saw params %s; want 200 and {\"first\":\"1\",\"second\":\"true\"} (ParseBasic is the default)", w4.Code, seen), "")
					}
					g3.Close()
				}
				// a Bridge that also answers GET: one call per request, one JSON value in the body, its server options honoured
				calls := 0
				bhd := func(ctx context.Context, req *jrpc2.Request) (any, error) { calls++; return "v", nil }
				bopts := &jhttp.BridgeOptions{
					ParseGETRequest: jhttp.ParseQuery,
					ParseRequest: func(hr *http.Request) ([]*jrpc2.ParsedRequest, error) {
						data, err := io.ReadAll(hr.Body)
						if err != nil {
							return nil, err
						}
						return jrpc2.ParseRequests(data)
					},
					Server: &jrpc2.ServerOptions{DisableBuiltin: true},
				}
				br := jhttp.NewBridge(assignerFunc(func(ctx context.Context, m string) jrpc2.Handler {
					if m == "echo" {
						return bhd
					}
					return nil
				}), bopts)
				for _, t := range []struct {
					target string
					status int
					calls  int
				}{{"/echo?a=1", 200, 1}, {"/rpc.serverInfo", 404, 0}, {"/nope", 404, 0}} {
					calls = 0
					w3 := httptest.NewRecorder()
					pb := guarded(func() { br.ServeHTTP(w3, httptest.NewRequest("GET", t.target, nil)) })
					vs.AwaitQuiescence()
					r.Case("bridge-get", true)
					Hit("C19.R5")
					if pb != "" || w3.Code != t.status || calls != t.calls || !json.Valid(w3.Body.Bytes()) {
						r.Fail("C19.R5", "Bridge GET "+t.target, fmt.Sprintf("status %d (want %d), handler calls %d (want %d), body %q (want one JSON value), panic %q", w3.Code, t.status, calls, t.calls, w3.Body.String(), pb), "")
					}
				}
				br.Close()
			})
			r.Calls(x.Steps)
			if x.Outcome != "ok" {
				r.Fail("G1", "getter", "run ended with "+x.Outcome+" "+firstLine(x.Detail), "")
			}
			r.Sample(map[string]any{"request": "GET /echo?a=NaN", "expect": "200 with the literal string, or 400 with a JSON error object; never 500 with a non-JSON body"})
		},
	}
}

// ---- E1: Client over jhttp.Channel against a Bridge ----

type countingBody struct {
	io.Reader
	closed *int
	id     int
}

func (b *countingBody) Close() error {
	*b.closed++
	vs.Note("body-closed", fmt.Sprint(b.id))
	return nil
}

// inprocHTTP serves requests by calling the bridge directly and counts body closes.
type inprocHTTP struct {
	h         http.Handler
	n         int
	closed    []*int
	badStatus int // if non-zero, the first request is answered with this status and a non-JSON body
	doErr     int // that many requests fail at the transport (Do returns an error, no response)
}

func (c *inprocHTTP) Do(req *http.Request) (*http.Response, error) {
	vs.Yield("http do")
	if c.n < c.doErr {
		c.n++
		io.Copy(io.Discard, req.Body)
		vs.Note("http-failed", fmt.Sprint(c.n))
		return nil, errors.New("transport failure: connection refused")
	}
	w := httptest.NewRecorder()
	if c.badStatus != 0 && c.n == 0 {
		io.Copy(io.Discard, req.Body)
		w.WriteHeader(c.badStatus)
		// a body that would pass for a reply to the first call if the status were ignored
		w.WriteString(`{"jsonrpc":"2.0","id":1,"result":"forged by an error page"}`)
	} else {
		c.h.ServeHTTP(w, req)
	}
	res := w.Result()
	c.n++
	cnt := new(int)
	c.closed = append(c.closed, cnt)
	res.Body = &countingBody{Reader: bytes.NewReader(w.Body.Bytes()), closed: cnt, id: c.n}
	vs.Note("body-open", fmt.Sprint(c.n), fmt.Sprint(res.StatusCode))
	return res, nil
}

type c19W struct {
	Name      string
	Close     bool // Close races with the operations
	Ops       []string
	BadStatus int  // the first HTTP request is answered with this status instead of reaching the bridge
	DoErr     int  // that many HTTP requests fail at the transport
	NoBuiltin bool // the bridge's server has DisableBuiltin set (op "info" must then be method-not-found)
}

func c19Channel(w c19W, b Bounds) *Scenario {
	return &Scenario{
		Name:   "client over jhttp.Channel: " + w.Name,
		Params: map[string]any{"ops": w.Ops, "close_races": w.Close},
		Bounds: b,
		New: func() *Instance {
			var hc *inprocHTTP
			body := func() {
				var tags []string
				var br jhttp.Bridge
				if !w.NoBuiltin {
					br = newBridge(&tags, false)
				} else {
					br = jhttp.NewBridge(assignerFunc(func(ctx context.Context, m string) jrpc2.Handler { return nil }),
						&jhttp.BridgeOptions{Server: &jrpc2.ServerOptions{DisableBuiltin: true}})
				}
				hc = &inprocHTTP{h: br, badStatus: w.BadStatus, doErr: w.DoErr}
				ch := jhttp.NewChannel("http://bridge/", &jhttp.ChannelOptions{Client: hc})
				cli := jrpc2.NewClient(ch, nil)
				var j Join
				for i, op := range w.Ops {
					i, op := i, op
					j.Go(fmt.Sprintf("op%d", i), func() {
						tag := fmt.Sprintf("t%d", i)
						switch op {
						case "call":
							var res string
							err := cli.CallResult(context.Background(), "echo", []string{tag}, &res)
							vs.Yield("ret")
							vs.Note("ret", fmt.Sprint(i), "call", res, errStr(err))
						case "notify":
							err := cli.Notify(context.Background(), "echo", []string{tag})
							vs.Yield("ret")
							vs.Note("ret", fmt.Sprint(i), "notify", "", errStr(err))
						case "batch":
							rsps, err := cli.Batch(context.Background(), []jrpc2.Spec{{Method: "echo", Params: []string{tag}}, {Method: "echo", Params: []string{tag + "n"}, Notify: true}})
							s := ""
							if err == nil && len(rsps) == 1 {
								s = rsps[0].ResultString()
							}
							vs.Yield("ret")
							vs.Note("ret", fmt.Sprint(i), "batch", s, errStr(err))
						case "batch2", "batch3":
							specs := []jrpc2.Spec{{Method: "echo", Params: []string{tag + "n"}, Notify: true}, {Method: "echo", Params: []string{tag}}}
							if op == "batch3" {
								specs = []jrpc2.Spec{{Method: "echo", Params: []string{tag}}, {Method: "echo", Params: []string{tag + "n"}, Notify: true}, {Method: "echo", Params: []string{tag + "b"}}}
							}
							rsps, err := cli.Batch(context.Background(), specs)
							var parts []string
							for _, r := range rsps {
								parts = append(parts, r.ResultString())
							}
							vs.Yield("ret")
							vs.Note("ret", fmt.Sprint(i), op, strings.Join(parts, ","), errStr(err))
						case "info":
							_, err := cli.Call(context.Background(), "rpc.serverInfo", nil)
							vs.Yield("ret")
							vs.Note("ret", fmt.Sprint(i), "info", "", fmt.Sprint(int(jrpc2.ErrorCode(err))))
						case "unknown":
							_, err := cli.Call(context.Background(), "nope", nil)
							vs.Yield("ret")
							vs.Note("ret", fmt.Sprint(i), "unknown", "", fmt.Sprint(int(jrpc2.ErrorCode(err))))
						}
					})
				}
				if w.Close {
					j.Go("close", func() { cli.Close(); vs.Yield("ret"); vs.Note("ret", "close") })
				}
				j.Wait()
				cli.Close()
				vs.Note("closed")
				br.Close()
			}
			check := func(x *vs.Exec) []Viol {
				v := genericRules(x, nil)
				if x.Outcome != "ok" {
					return v
				}
				// R6: same results as over a direct connection (when the operation was not cut short by Close)
				for i, op := range w.Ops {
					ri := findEv(x, 0, "ret", fmt.Sprint(i))
					if ri < 0 {
						v = append(v, Viol{"C19.R6", fmt.Sprintf("operation %d (%s) did not return", i, op)})
						continue
					}
					e := x.Log[ri]
					failed := (op != "unknown" && op != "info" && e.Arg(3) != "<nil>")
					if failed && !w.Close && w.BadStatus == 0 && w.DoErr == 0 {
						v = append(v, Viol{"C19.R6", fmt.Sprintf("%s over the HTTP channel failed: %s", op, e.Arg(3))})
						continue
					}
					if failed {
						continue
					}
					Hit("C19.R6")
					tag := fmt.Sprintf("t%d", i)
					switch op {
					case "call":
						if e.Arg(2) != tag {
							v = append(v, Viol{"C19.R6", fmt.Sprintf("call returned %q over the HTTP channel, %q over a direct connection", e.Arg(2), tag)})
						}
					case "batch2":
						if e.Arg(2) != `"`+tag+`"` {
							v = append(v, Viol{"C19.R6", fmt.Sprintf("batch [note,call] returned %q over the HTTP channel, %q over a direct connection", e.Arg(2), `"`+tag+`"`)})
						}
					case "batch3":
						if want := `"` + tag + `","` + tag + `b"`; e.Arg(2) != want {
							v = append(v, Viol{"C19.R6", fmt.Sprintf("batch [call,note,call] returned %q over the HTTP channel, %q over a direct connection", e.Arg(2), want)})
						}
					case "batch":
						if e.Arg(2) != `"`+tag+`"` {
							v = append(v, Viol{"C19.R6", fmt.Sprintf("batch returned %q, want %q", e.Arg(2), `"`+tag+`"`)})
						}
					case "info":
						if want := map[bool]string{true: "-32601", false: "-32099"}[w.NoBuiltin]; e.Arg(3) != want && !w.Close {
							v = append(v, Viol{"C19.R6", fmt.Sprintf("rpc.serverInfo over the HTTP channel (DisableBuiltin=%v) gave code %s, a direct connection gives %s", w.NoBuiltin, e.Arg(3), want)})
						}
					case "unknown":
						if e.Arg(3) != "-32601" && !w.Close && w.BadStatus == 0 {
							v = append(v, Viol{"C19.R6", "unknown method over HTTP gave code " + e.Arg(3)})
						}
					}
				}
				// R7: every response body handed out has been closed exactly once
				Hit("C19.R7")
				for i, c := range hc.closed {
					if *c != 1 {
						v = append(v, Viol{"C19.R7", fmt.Sprintf("HTTP response body %d of %d was closed %d times after the channel was closed", i+1, len(hc.closed), *c)})
					}
				}
				return v
			}
			return &Instance{Body: body, Check: check}
		},
	}
}

func c19Scenarios(tier string) []*Scenario {
	var out []*Scenario
	q := tier == "quick"
	ml := 4
	if !q {
		ml = 5
	}
	for _, c := range []byte(`"'+-01.ex_a \`) {
		out = append(out, c19Values(ml, c))
	}
	out = append(out, c19Words(), c19Getter())
	b1, b2 := Bounds{1, 1, 0}, Bounds{1, 1, 0}
	if !q {
		b1, b2 = Bounds{2, 2, 0}, Bounds{2, 1, 0}
	}
	out = append(out,
		c19Channel(c19W{Name: "call", Ops: []string{"call"}}, b1),
		c19Channel(c19W{Name: "notify", Ops: []string{"notify"}}, b1),
		c19Channel(c19W{Name: "batch[call,note]", Ops: []string{"batch"}}, b1),
		c19Channel(c19W{Name: "batch[note,call]", Ops: []string{"batch2"}}, b1),
		c19Channel(c19W{Name: "batch[call,note,call]", Ops: []string{"batch3"}}, b1),
		c19Channel(c19W{Name: "unknown method", Ops: []string{"unknown"}}, b1),
		c19Channel(c19W{Name: "call racing Close", Ops: []string{"call"}, Close: true}, b1),
		c19Channel(c19W{Name: "notify racing Close", Ops: []string{"notify"}, Close: true}, b1),
		c19Channel(c19W{Name: "two calls", Ops: []string{"call", "call"}}, b2),
		c19Channel(c19W{Name: "two calls racing Close", Ops: []string{"call", "call"}, Close: true}, b2),
		c19Channel(c19W{Name: "call answered with HTTP 500", Ops: []string{"call"}, BadStatus: 500}, b1),
		c19Channel(c19W{Name: "notify answered with HTTP 404, then a call", Ops: []string{"notify", "call"}, BadStatus: 404}, b1),
		c19Channel(c19W{Name: "call answered with HTTP 500 racing Close", Ops: []string{"call"}, Close: true, BadStatus: 500}, b1),
		c19Channel(c19W{Name: "call answered with HTTP 204 (no content)", Ops: []string{"call"}, Close: true, BadStatus: 204}, b1),
		c19Channel(c19W{Name: "notify and a call", Ops: []string{"notify", "call"}}, b1),
		c19Channel(c19W{Name: "call, the transport fails", Ops: []string{"call"}, DoErr: 1}, b1),
		c19Channel(c19W{Name: "two calls, the transport fails for both", Ops: []string{"call", "call"}, DoErr: 2}, b2),
		c19Channel(c19W{Name: "two calls, the transport fails for both, racing Close", Ops: []string{"call", "call"}, DoErr: 2, Close: true}, b2),
		c19Channel(c19W{Name: "two calls, the transport fails for the first", Ops: []string{"call", "call"}, DoErr: 1}, b2),
		c19Channel(c19W{Name: "notify, the transport fails, then a call", Ops: []string{"notify", "call"}, DoErr: 1}, b1),
		c19Channel(c19W{Name: "rpc.serverInfo with the built-ins disabled on the bridge's server", Ops: []string{"info"}, NoBuiltin: true}, b1),
		c19Channel(c19W{Name: "rpc.serverInfo", Ops: []string{"info"}}, b1),
	)
	return out
}
