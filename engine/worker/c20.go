package main

import (
	"context"
	"errors"
	"fmt"
	"io"
	"net"
	"strings"

	"github.com/creachadair/jrpc2"
	"github.com/creachadair/jrpc2/channel"
	"github.com/creachadair/jrpc2/server"
	"verif/vs"
)

// C20 — server.Loop: fresh service and exactly one Finish per connection; exits last.

func init() { register("C20", c20Scenarios) }

var errAccept = errors.New("accepter broke")

// tempErr is an accepter failure that calls itself temporary (as net.Error timeouts and
// context.DeadlineExceeded do): still "any other failure" for Loop, which returns it.
type tempErr struct{}

func (tempErr) Error() string   { return "accepter broke for now" }
func (tempErr) Timeout() bool   { return true }
func (tempErr) Temporary() bool { return true }

// memAccepter is an in-memory server.Accepter driven by harness threads.
type memAccepter struct {
	queue    []channel.Channel
	failWith error
	accepted int
}

func (a *memAccepter) Accept(ctx context.Context) (channel.Channel, error) {
	vs.Await(func() bool { return len(a.queue) > 0 || a.failWith != nil || ctx.Err() != nil }, "accept")
	if len(a.queue) > 0 {
		ch := a.queue[0]
		a.queue = a.queue[1:]
		a.accepted++
		name := ""
		if le, ok := ch.(*LibEnd); ok {
			name = le.p.opts.Name
		}
		vs.Note("accepted", fmt.Sprint(a.accepted), name)
		return ch, nil
	}
	if a.failWith != nil {
		return nil, a.failWith
	}
	return nil, fmt.Errorf("accept: %w", net.ErrClosed) // what NetAccepter yields when the context ends
}

type c20Service struct {
	id   int
	fail bool
	asg  jrpc2.Assigner
}

func (s *c20Service) Assigner() (jrpc2.Assigner, error) {
	vs.Event("assigner", fmt.Sprint(s.id), fmt.Sprint(s.fail))
	if s.fail {
		return nil, errors.New("service unavailable")
	}
	return s.asg, nil
}

func (s *c20Service) Finish(a jrpc2.Assigner, st jrpc2.ServerStatus) {
	same := "same-assigner"
	if aa, ok := a.(anyAssigner); !ok || fmt.Sprintf("%p", aa.h) != fmt.Sprintf("%p", s.asg.(anyAssigner).h) {
		same = "OTHER-assigner"
	}
	vs.Event("finish", fmt.Sprint(s.id), same, fmt.Sprintf("stopped=%v closed=%v err=%v", st.Stopped, st.Closed, st.Err))
}

type c20P struct {
	Items    []string // start order: conn1, conn2, conn3, connfail (a connection whose service's Assigner fails), cancel, fail-other, fail-closed
	ClientGo bool     // clients close on their own after their call is answered
}

func (p c20P) name() string { return "order=" + strings.Join(p.Items, ">") }

func c20Scenario(p c20P, b Bounds) *Scenario {
	return &Scenario{
		Name:   p.name(),
		Params: map[string]any{"start_order": p.Items},
		Bounds: b,
		New: func() *Instance {
			gates := NewGates()
			var pipes []*Pipe
			failNext := map[int]bool{} // connection index (arrival order at newService) whose Assigner fails
			body := func() {
				acc := &memAccepter{}
				ctx, cancel := cancelCauseCtx()
				nsvc := 0
				tok := 0
				newService := func() server.Service {
					nsvc++
					id := nsvc
					vs.Event("newService", fmt.Sprint(id))
					hd := func(ctx context.Context, req *jrpc2.Request) (any, error) {
						tok++
						vs.Event("h_enter", req.Method(), fmt.Sprint(id))
						if req.Method() == "push" {
							// a handler (of a notification) that calls back to the client with a context of its
							// own: only an answer or the server stopping can end that Callback
							_, err := jrpc2.ServerFromContext(ctx).Callback(context.Background(), "ask", nil)
							vs.Yield("h_exit")
							vs.Note("h_exit", req.Method(), fmt.Sprint(id), errStr(err))
							return nil, nil
						}
						gates.Wait(req.Method())
						vs.Yield("h_exit")
						vs.Note("h_exit", req.Method(), fmt.Sprint(id), ctxErrStr(ctx))
						return id, nil
					}
					return &c20Service{id: id, fail: failNext[id], asg: anyAssigner{hd}}
				}
				var j Join
				nconn := 0
				connect := func(name string, failing bool) {
					nconn++
					k := nconn
					lib, peer, pipe := NewPipe(PipeOpts{Name: fmt.Sprintf("conn%d", k), CloseUnblocksRecv: true})
					pipes = append(pipes, pipe)
					idle := name == "connidle"
					breaks := name == "connerr" // the transport fails after the call was answered: the server exits with an error status
					vs.GoNamed(fmt.Sprintf("conn%d", k), func() {
						vs.Event("env", "connect", fmt.Sprint(k))
						acc.queue = append(acc.queue, lib)
						if idle {
							// a client that stays connected and silent: only the server side ends this connection
							_, ok := peer.Recv()
							vs.Note("client-got", fmt.Sprint(k), "", fmt.Sprint(ok))
							peer.Close()
							return
						}
						if name == "connpush" || name == "connpushgo" {
							// the client's notification makes the handler call back; the client never answers
							if !peer.Send([]byte(`{"jsonrpc":"2.0","method":"push"}`)) {
								return
							}
							rec, ok := peer.Recv()
							vs.Note("client-got", fmt.Sprint(k), string(rec), fmt.Sprint(ok))
							if name == "connpush" && ok {
								peer.Recv() // stays connected until the server side lets go
							}
							peer.Close()
							return
						}
						m := fmt.Sprintf("g%d", k)
						if !peer.Send([]byte(fmt.Sprintf(`{"jsonrpc":"2.0","id":1,"method":%q}`, m))) {
							return
						}
						rec, ok := peer.Recv()
						vs.Note("client-got", fmt.Sprint(k), string(rec), fmt.Sprint(ok))
						if breaks && ok {
							vs.Note("env", "transport-failure", fmt.Sprint(k))
							pipe.FailRecv = errFault
							peer.Recv() // until the server side lets go of the connection
						}
						peer.Close()
					})
					_ = failing
				}
				// which service index fails is decided by arrival order at newService: mark by connection order
				ci := 0
				for _, it := range p.Items {
					if strings.HasPrefix(it, "conn") {
						ci++
						if it == "connfail" {
							failNext[ci] = true
						}
					}
				}
				for _, it := range p.Items {
					switch it {
					case "conn1", "conn2", "conn3", "connidle", "connerr", "connpush", "connpushgo":
						connect(it, false)
					case "connfail":
						connect(it, true)
					case "cancel":
						j.Go("cancel", func() { vs.Event("env", "cancel"); cancel() })
					case "fail-other":
						j.Go("fail", func() { vs.Event("env", "fail-other"); acc.failWith = errAccept })
					case "fail-temp":
						j.Go("fail", func() { vs.Event("env", "fail-other"); acc.failWith = tempErr{} })
					case "fail-chclosed": // the closed-listener error of an accepter that is not a net.Listener
						j.Go("fail", func() { vs.Event("env", "fail-closed"); acc.failWith = channel.ErrClosed })
					case "fail-chclosed-wrapped":
						j.Go("fail", func() { vs.Event("env", "fail-closed"); acc.failWith = fmt.Errorf("accepter: %w", channel.ErrClosed) })
					case "fail-eof":
						j.Go("fail", func() { vs.Event("env", "fail-other"); acc.failWith = io.EOF })
					case "fail-pipe":
						j.Go("fail", func() { vs.Event("env", "fail-other"); acc.failWith = io.ErrClosedPipe })
					case "fail-ueof":
						j.Go("fail", func() { vs.Event("env", "fail-other"); acc.failWith = fmt.Errorf("accept: %w", io.ErrUnexpectedEOF) })
					case "fail-closed":
						j.Go("fail", func() { vs.Event("env", "fail-closed"); acc.failWith = fmt.Errorf("listener: %w", net.ErrClosed) })
					}
				}
				vs.GoNamed("opener", func() {
					for i := 0; i < 4; i++ {
						vs.AwaitQuiescence()
						vs.Note("quiet", "opener")
						for k := 1; k <= nconn; k++ {
							gates.Open(fmt.Sprintf("g%d", k))
						}
						// nothing in the scenario may end the loop: end the context once everything is idle
						if i == 1 {
							vs.Note("env", "cancel-final")
							cancel()
						}
					}
				})
				err := server.Loop(ctx, acc, newService, &server.LoopOptions{ServerOptions: &jrpc2.ServerOptions{Concurrency: 2, AllowPush: true}})
				vs.Yield("ret")
				vs.Note("ret", "Loop", errStr(err))
				j.Wait()
				cancel()
			}
			check := func(x *vs.Exec) []Viol {
				acceptedConn := map[string]bool{}
				for _, e := range x.Log {
					if e.K == "accepted" {
						acceptedConn[e.Arg(1)] = true
					}
				}
				v := genericRules(x, func(b vs.Blocked) bool {
					// a connection that was never accepted (the loop ended first) leaves its client waiting: the
					// harness owns that thread, not the library. A client of an ACCEPTED connection must see
					// its connection closed eventually.
					return strings.HasPrefix(b.Name, "conn") && !acceptedConn[b.Name]
				})
				for i := range v {
					if v[i].Rule == "G2" && strings.Contains(v[i].Msg, "thread left behind: conn") {
						v[i] = Viol{"C20.R6", "an accepted connection was never closed by Loop (its client is still waiting): " + v[i].Msg}
					}
				}
				if x.Outcome != "ok" {
					return v
				}
				ret := findEv(x, 0, "ret", "Loop")
				if ret < 0 {
					return append(v, Viol{"C20.R3", "Loop did not return"})
				}
				accepted, services := 0, 0
				started := map[string]bool{}
				finished := map[string]int{}
				for i, e := range x.Log {
					switch e.K {
					case "accepted":
						accepted++
					case "newService":
						services++
					case "assigner":
						if e.Arg(1) == "false" {
							started[e.Arg(0)] = true
						}
					case "finish":
						finished[e.Arg(0)]++
						Hit("C20.R2")
						if e.Arg(1) != "same-assigner" {
							v = append(v, Viol{"C20.R2", "Finish was called with an assigner other than the one the service returned"})
						}
						if i > ret {
							v = append(v, Viol{"C20.R3", "Loop returned before service " + e.Arg(0) + " was finished"})
						}
						// after the server has fully exited: its handlers have returned
						for k := i; k < len(x.Log); k++ {
							if x.Log[k].K == "h_exit" && x.Log[k].Arg(1) == e.Arg(0) {
								v = append(v, Viol{"C20.R2", "Finish was called before the server's handler had returned"})
							}
						}
						en := findEv(x, 0, "h_enter", "*", e.Arg(0))
						if en >= 0 && findEv(x, en, "h_exit", "*", e.Arg(0)) > i {
							v = append(v, Viol{"C20.R2", "Finish was called while a handler was running"})
						}
						st := e.Arg(2)
						if !strings.Contains(st, "stopped=true") && !strings.Contains(st, "closed=true") && !(strings.Contains(st, errFault.Error()) && findEv(x, 0, "env", "transport-failure") >= 0) {
							v = append(v, Viol{"C20.R2", "unexpected exit status " + st})
						}
						if strings.Contains(st, "stopped=true") {
							c1, c2 := findEv(x, 0, "env", "cancel"), findEv(x, 0, "env", "cancel-final")
							if !((c1 >= 0 && c1 < i) || (c2 >= 0 && c2 < i)) {
								v = append(v, Viol{"C20.R2", "a server reported Stopped although the context had not ended"})
							}
						}
					}
				}
				Hit("C20.R1")
				if services != accepted {
					v = append(v, Viol{"C20.R1", fmt.Sprintf("%d connections accepted but newService called %d times", accepted, services)})
				}
				for id := range started {
					Hit("C20.R2")
					if finished[id] != 1 {
						v = append(v, Viol{"C20.R2", fmt.Sprintf("service %s: Finish called %d times", id, finished[id])})
					}
				}
				for id, n := range finished {
					if !started[id] && n > 0 {
						v = append(v, Viol{"C20.R6", "Finish called for a service whose Assigner failed"})
					}
				}
				// R4: return value
				Hit("C20.R4")
				fo := findEv(x, 0, "env", "fail-other")
				fc := findEv(x, 0, "env", "fail-closed")
				rv := x.Log[ret].Arg(1)
				switch {
				case rv == "<nil>":
					c1, c2 := findEv(x, 0, "env", "cancel"), findEv(x, 0, "env", "cancel-final")
					cancelled := (c1 >= 0 && c1 < ret) || (c2 >= 0 && c2 < ret)
					if !(cancelled || (fc >= 0 && fc < ret)) {
						v = append(v, Viol{"C20.R4", "Loop returned nil although neither the context ended nor the listener was closed"})
					}
				case rv == errAccept.Error() || rv == (tempErr{}).Error() || rv == io.EOF.Error() || rv == io.ErrClosedPipe.Error() || rv == "accept: "+io.ErrUnexpectedEOF.Error():
					if fo < 0 || fo > ret {
						v = append(v, Viol{"C20.R4", "Loop returned the accepter's error before it had failed"})
					}
				default:
					v = append(v, Viol{"C20.R4", "Loop returned " + rv})
				}
				// R6: a connection whose service's Assigner failed is closed, exactly once
				ai := 0
				for _, e := range x.Log {
					if e.K != "assigner" {
						continue
					}
					ai++
					if e.Arg(1) == "true" {
						// the ai-th service belongs to the ai-th accepted connection (Loop handles accept then service in order of acceptance per goroutine)
						Hit("C20.R6")
					}
				}
				nfail := 0
				for _, e := range x.Log {
					if e.K == "assigner" && e.Arg(1) == "true" {
						nfail++
					}
				}
				{
					cc := map[string]int{}
					for _, e := range x.Log {
						if e.K == "closed" && strings.HasPrefix(e.Arg(0), "conn") {
							cc[e.Arg(0)]++
						}
					}
					for name, n := range cc {
						Hit("C20.R6")
						if n > 1 && nfail == 0 {
							v = append(v, Viol{"C20.R6", fmt.Sprintf("%s was closed %d times", name, n)})
						}
					}
				}
				if nfail > 0 {
					// count accepted connections that were never closed by the library
					closedConns := map[string]int{}
					for _, e := range x.Log {
						if e.K == "closed" && strings.HasPrefix(e.Arg(0), "conn") {
							closedConns[e.Arg(0)]++
						}
					}
					for name, n := range closedConns {
						if n > 1 {
							v = append(v, Viol{"C20.R6", fmt.Sprintf("%s closed %d times", name, n)})
						}
					}
					if len(closedConns) < accepted {
						v = append(v, Viol{"C20.R6", fmt.Sprintf("%d connections were accepted but only %d were closed: the connection of a service whose Assigner failed is left dangling", accepted, len(closedConns))})
					}
				}
				return v
			}
			return &Instance{Body: body, Check: check}
		},
	}
}

func c20Net(b Bounds) *Scenario {
	return &Scenario{
		Name:   "NetAccepter over a fake listener: cancel racing Accept",
		Params: map[string]any{},
		Bounds: b,
		New: func() *Instance {
			body := func() {
				lst := &fakeListener{}
				ctx, cancel := cancelCauseCtx()
				var j Join
				j.Go("cancel", func() { vs.Event("env", "cancel"); cancel() })
				err := server.Loop(ctx, server.NetAccepter(lst, channel.Line), server.Static(anyAssigner{func(context.Context, *jrpc2.Request) (any, error) { return 1, nil }}), nil)
				vs.Yield("ret")
				vs.Note("ret", "Loop", errStr(err), fmt.Sprint(lst.closed))
				j.Wait()
			}
			check := func(x *vs.Exec) []Viol {
				v := genericRules(x, nil)
				if x.Outcome != "ok" {
					return v
				}
				Hit("C20.R4")
				if r := findEv(x, 0, "ret", "Loop"); r < 0 || x.Log[r].Arg(1) != "<nil>" {
					v = append(v, Viol{"C20.R4", "Loop over NetAccepter must return nil when the context ends"})
				}
				return v
			}
			return &Instance{Body: body, Check: check}
		},
	}
}

// fakeListener: Accept blocks until Close.
type fakeListener struct{ closed int }

func (l *fakeListener) Accept() (net.Conn, error) {
	vs.Await(func() bool { return l.closed > 0 }, "listener accept")
	return nil, fmt.Errorf("accept tcp: %w", net.ErrClosed)
}
func (l *fakeListener) Close() error   { vs.Yield("listener close"); l.closed++; return nil }
func (l *fakeListener) Addr() net.Addr { return &net.TCPAddr{} }

func c20Scenarios(tier string) []*Scenario {
	var out []*Scenario
	q := tier == "quick"
	events := []string{"conn1", "conn2", "connfail", "connidle", "connerr", "cancel", "fail-other", "fail-closed"}
	var subsets [][]string
	n := len(events)
	maxSize := 3
	if q {
		maxSize = 2
	}
	for m := 1; m < 1<<n; m++ {
		var s []string
		for i := 0; i < n; i++ {
			if m&(1<<i) != 0 {
				s = append(s, events[i])
			}
		}
		if len(s) > maxSize {
			continue
		}
		// conn2 only together with conn1; at most one failure kind
		hasC1, hasC2, nf := false, false, 0
		for _, e := range s {
			switch e {
			case "conn1":
				hasC1 = true
			case "conn2":
				hasC2 = true
			case "fail-other", "fail-closed":
				nf++
			}
		}
		if (hasC2 && !hasC1) || nf > 1 {
			continue
		}
		subsets = append(subsets, s)
	}
	for _, s := range subsets {
		for _, o := range orderings(s) {
			b := Bounds{1, 1, 0}
			if len(o) == 1 {
				b = Bounds{2, 2, 0}
			}
			if !q {
				b = Bounds{2, 1, 0}
				if len(o) <= 2 {
					b = Bounds{2, 2, 0}
				}
			}
			out = append(out, c20Scenario(c20P{Items: o}, b))
		}
	}
	for _, o := range [][]string{{"fail-chclosed"}, {"fail-chclosed-wrapped"}, {"conn1", "fail-chclosed-wrapped"}, {"fail-eof"}, {"conn1", "fail-eof"}, {"fail-pipe"}, {"fail-ueof"}, {"connpush"}, {"connpushgo"}, {"connpush", "cancel"}, {"cancel", "connpush"}, {"conn1", "connpush"}, {"connpushgo", "conn1"}, {"connpush", "fail-other"}} {
		b := Bounds{1, 1, 0}
		if !q {
			b = Bounds{2, 1, 0}
		}
		out = append(out, c20Scenario(c20P{Items: o}, b))
	}
	if q {
		out = append(out, c20Scenario(c20P{Items: []string{"connerr", "cancel"}}, Bounds{1, 1, 0}), c20Scenario(c20P{Items: []string{"conn1", "connerr"}}, Bounds{1, 1, 0}))
		out = append(out, c20Scenario(c20P{Items: []string{"conn1", "fail-temp"}}, Bounds{1, 1, 0}), c20Scenario(c20P{Items: []string{"fail-temp"}}, Bounds{1, 1, 0}))
		out = append(out, c20Scenario(c20P{Items: []string{"conn1", "conn2", "cancel"}}, Bounds{1, 1, 0}))
		out = append(out, c20Scenario(c20P{Items: []string{"conn1", "conn2"}}, Bounds{1, 1, 1})) // with one environment deviation
		out = append(out, c20Scenario(c20P{Items: []string{"conn1", "connfail", "cancel"}}, Bounds{1, 1, 0}))
		out = append(out, c20Net(Bounds{2, -1, 0}))
	} else {
		out = append(out, c20Scenario(c20P{Items: []string{"conn1", "conn2", "conn3", "cancel"}}, Bounds{1, 1, 0}))
		out = append(out, c20Net(Bounds{3, -1, 0}))
	}
	return out
}
