package main

import (
	"context"
	"errors"
	"fmt"
	"strings"
	"time"

	"github.com/creachadair/jrpc2"
	"verif/vs"
)

// ---------------------------------------------------------------------------
// Client-side harness: a Client on a Pipe, a raw scripted peer.

// dctx is a context whose "deadline" is fired by a harness thread: no timer, and
// because it implements AfterFunc, context.WithCancel(dctx) starts no goroutine.
type dctx struct {
	done  chan struct{}
	err   error
	funcs []func()
}

func newDctx() *dctx                        { return &dctx{done: make(chan struct{})} }
func (d *dctx) Deadline() (time.Time, bool) { return time.Time{}, false }
func (d *dctx) Done() <-chan struct{}       { return d.done }
func (d *dctx) Err() error                  { return d.err }
func (d *dctx) Value(any) any               { return nil }
func (d *dctx) AfterFunc(f func()) func() bool {
	i := len(d.funcs)
	d.funcs = append(d.funcs, f)
	return func() bool {
		if d.funcs[i] == nil || d.err != nil {
			return false
		}
		d.funcs[i] = nil
		return true
	}
}
func (d *dctx) fire() {
	if d.err != nil {
		return
	}
	d.err = context.DeadlineExceeded
	close(d.done)
	for _, f := range d.funcs {
		if f != nil {
			f()
		}
	}
}

type peerReq struct {
	Method string
	ID     string // "" for notifications
	Rec    int    // index of the record that carried it
	Batch  bool
}

// cliHarness is the per-execution state.
type cliHarness struct {
	cli      *jrpc2.Client
	pipe     *Pipe
	peer     *PeerEnd
	reqs     []peerReq // requests seen by the peer, in arrival order
	nrec     int
	peerDone bool
}

// peerLoop reads everything the client sends, records the requests, and closes the
// peer's end when it sees the end of the stream (the property's stated assumption).
func (h *cliHarness) peerLoop() {
	for {
		rec, ok := h.peer.Recv()
		if !ok {
			break
		}
		ms, isArr, err := parseRecord(rec)
		if err != nil {
			vs.Note("peer-bad-record", string(rec))
			continue
		}
		for _, m := range ms {
			if m.Has("method") {
				var meth string
				fmt.Sscanf(m.Str("method"), "%q", &meth)
				id := ""
				if m.Has("id") {
					id = m.ID()
				}
				h.reqs = append(h.reqs, peerReq{meth, id, h.nrec, isArr})
				vs.Note("peer-saw", meth, id, fmt.Sprint(h.nrec))
			} else {
				vs.Note("peer-saw-reply", string(m.Raw))
			}
		}
		h.nrec++
	}
	h.peerDone = true
	h.peer.Close()
	vs.Note("peer-closed-after-eof")
}

func (h *cliHarness) idOf(method string) string {
	for _, r := range h.reqs {
		if r.Method == method {
			return r.ID
		}
	}
	return ""
}

func (h *cliHarness) send(s string) bool {
	ok := h.peer.Send([]byte(s))
	if ok {
		vs.Note("peer-sent", s)
	}
	return ok
}

func replyFor(method, id string) string {
	return fmt.Sprintf(`{"jsonrpc":"2.0","id":%s,"result":"R:%s:%s"}`, id, method, id)
}

func callRet(op string, rsp *jrpc2.Response, err error) {
	vs.Yield("ret")
	if err != nil {
		kind := "err"
		var je *jrpc2.Error
		switch {
		case err == context.Canceled:
			kind = "canceled"
		case err == context.DeadlineExceeded:
			kind = "deadline"
		case errors.As(err, &je):
			kind = "jerr"
		}
		vs.Note("ret", op, kind, err.Error())
		return
	}
	vs.Note("ret", op, "ok", rsp.ID(), rsp.ResultString())
}

// ---------------------------------------------------------------------------
// C04 — replies are matched to requests by id, whatever the peer's ordering.

func init() { register("C04", c04Scenarios) }

type c04P struct {
	Callers int    // concurrent Call threads m0..m{n-1}; 0 = one Batch [call b0, note bn, call b1]; -1 = a Batch [note bn, call b0] concurrently with a Call m0
	Perm    []int  // order in which the peer answers the calls
	Noise   string // "", dup, unknown, badversion, noid, notify, notify+hook, callback, callback+hook, strid, floatid
}

func (p c04P) name() string {
	who := fmt.Sprintf("callers=%d", p.Callers)
	if p.Callers == 0 {
		who = "batch[call,note,call]"
	}
	if p.Callers == -1 {
		who = "batch[note,call]+call"
	}
	s := fmt.Sprintf("%s reply-order=%v", who, p.Perm)
	if p.Noise != "" {
		s += " noise=" + p.Noise
	}
	return s
}

// compositions of n items into consecutive groups: bitmask over the n-1 gaps (bit set = split)
func groupsOf(n, mask int) [][]int {
	var out [][]int
	cur := []int{0}
	for i := 1; i < n; i++ {
		if mask&(1<<(i-1)) != 0 {
			out = append(out, cur)
			cur = nil
		}
		cur = append(cur, i)
	}
	return append(out, cur)
}

func c04Scenario(p c04P, b Bounds) *Scenario {
	return &Scenario{
		Name:   p.name(),
		Params: map[string]any{"callers": p.Callers, "reply_order": p.Perm, "noise": p.Noise, "free_choices": "grouping of replies into arrays/objects; position of the noise item"},
		Bounds: b,
		New: func() *Instance {
			h := &cliHarness{}
			var methods []string
			if p.Callers == 0 {
				methods = []string{"b0", "b1"}
			} else if p.Callers == -1 {
				methods = []string{"b0", "m0"}
			} else {
				for k := 0; k < p.Callers; k++ {
					methods = append(methods, fmt.Sprintf("m%d", k))
				}
			}
			body := func() {
				lib, peer, pipe := NewPipe(PipeOpts{Name: "cli", CloseUnblocksRecv: true})
				h.pipe, h.peer = pipe, peer
				opts := &jrpc2.ClientOptions{}
				if p.Noise == "notify+hook" {
					opts.OnNotify = func(r *jrpc2.Request) { vs.Note("hook", "OnNotify", r.Method()) }
				}
				if p.Noise == "callback+hook" {
					opts.OnCallback = func(ctx context.Context, r *jrpc2.Request) (any, error) {
						vs.Event("hook", "OnCallback", r.Method(), r.ID())
						return "cbresult", nil
					}
				}
				c := jrpc2.NewClient(lib, opts)
				h.cli = c
				var j Join
				if p.Callers == 0 {
					j.Go("batch", func() {
						vs.Event("call", "batch")
						rsps, err := c.Batch(context.Background(), []jrpc2.Spec{{Method: "b0"}, {Method: "bn", Notify: true}, {Method: "b1"}})
						vs.Yield("ret")
						if err != nil {
							vs.Note("ret", "batch", "err", err.Error())
							return
						}
						var parts []string
						for _, r := range rsps {
							if e := r.Error(); e != nil {
								parts = append(parts, r.ID()+"=E:"+e.Message)
							} else {
								parts = append(parts, r.ID()+"="+r.ResultString())
							}
						}
						vs.Note("ret", "batch", "ok", strings.Join(parts, " "))
					})
				} else if p.Callers == -1 {
					j.Go("batch", func() {
						vs.Event("call", "batch")
						rsps, err := c.Batch(context.Background(), []jrpc2.Spec{{Method: "bn", Notify: true}, {Method: "b0"}})
						vs.Yield("ret")
						if err != nil || len(rsps) != 1 {
							vs.Note("ret", "b0", "err", fmt.Sprint(err, len(rsps)))
							return
						}
						if e := rsps[0].Error(); e != nil {
							vs.Note("ret", "b0", "jerr", e.Message)
						} else {
							vs.Note("ret", "b0", "ok", rsps[0].ID(), rsps[0].ResultString())
						}
					})
					j.Go("m0", func() {
						vs.Event("call", "m0")
						rsp, err := c.Call(context.Background(), "m0", nil)
						callRet("m0", rsp, err)
					})
				} else {
					for k := 0; k < p.Callers; k++ {
						m := methods[k]
						j.Go(m, func() {
							vs.Event("call", m)
							rsp, err := c.Call(context.Background(), m, nil)
							callRet(m, rsp, err)
							if rsp != nil {
								// what a proxy does with a finished response (Response.SetID, as jhttp.Bridge does):
								// it restores an id of its own, which may well be one this client has in flight
								for _, o := range methods {
									if id := h.idOf(o); o != m && id != "" {
										rsp.SetID(id)
									}
								}
							}
						})
					}
				}
				vs.GoNamed("peer", h.peerLoop)
				vs.GoNamed("script", func() {
					// wait until every call request has arrived
					vs.Await(func() bool {
						n := 0
						for _, r := range h.reqs {
							if r.ID != "" {
								n++
							}
						}
						return n >= len(methods) || h.peerDone
					}, "await requests")
					if h.peerDone {
						return
					}
					// the reply stream: permutation (scenario), grouping (free), noise position (free)
					var items []string
					for _, k := range p.Perm {
						items = append(items, replyFor(methods[k], h.idOf(methods[k])))
					}
					mask := vs.ChooseFree(1<<(len(items)-1), "grouping")
					single := 0
					if len(items) > 0 {
						single = vs.ChooseFree(2, "singletons-as-array")
					}
					var wire []string
					for _, g := range groupsOf(len(items), mask) {
						if len(g) == 1 && single == 0 {
							wire = append(wire, items[g[0]])
							continue
						}
						var parts []string
						for _, i := range g {
							parts = append(parts, items[i])
						}
						wire = append(wire, "["+strings.Join(parts, ",")+"]")
					}
					if p.Noise != "" {
						first := methods[p.Perm[0]]
						fid := h.idOf(first)
						var noise string
						minPos := 0
						switch p.Noise {
						case "dup":
							noise = fmt.Sprintf(`{"jsonrpc":"2.0","id":%s,"result":"DUP"}`, fid)
							minPos = 0
						case "unknown":
							noise = `{"jsonrpc":"2.0","id":99,"result":"UNKNOWN"}`
						case "badversion":
							noise = `{"jsonrpc":"1.0","id":98,"result":"BADVERSION"}`
						case "noid":
							noise = `{"jsonrpc":"2.0","result":"NOID"}`
						case "nullid-error":
							noise = `{"jsonrpc":"2.0","id":null,"error":{"code":-32600,"message":"STRAY"}}`
						case "noid-error":
							noise = `{"jsonrpc":"2.0","error":{"code":-32700,"message":"STRAY"}}`
						case "notify", "notify+hook":
							noise = `{"jsonrpc":"2.0","method":"srvnote"}`
						case "callback", "callback+hook":
							noise = fmt.Sprintf(`{"jsonrpc":"2.0","id":%s,"method":"srvcall"}`, fid) // same id text as an in-flight client request
						case "badreply-version": // replies to a pending id that are not valid response objects: that call ends with an error
							noise = fmt.Sprintf(`{"jsonrpc":"1.0","id":%s,"result":5}`, fid)
						case "badreply-mixed":
							noise = fmt.Sprintf(`{"jsonrpc":"2.0","id":%s,"method":"x","result":1}`, fid)
						case "badreply-bareid":
							noise = fmt.Sprintf(`{"jsonrpc":"2.0","id":%s}`, fid)
						case "scalar":
							noise = `7`
						case "scalar-in-array":
							noise = `[7,"s",null]`
						case "ws": // JSON white space around every record changes nothing
							noise = ""
							for i := range wire {
								wire[i] = " \r\n\t" + wire[i] + "\n "
							}
						case "badreq-noversion": // server requests that are invalid but keep the id text of an in-flight client request
							noise = fmt.Sprintf(`{"id":%s,"method":"srvcall"}`, fid)
						case "badreq-extra":
							noise = fmt.Sprintf(`{"jsonrpc":"2.0","id":%s,"method":"srvcall","extra":1}`, fid)
						case "badreq-params":
							noise = fmt.Sprintf(`{"jsonrpc":"2.0","id":%s,"method":"srvcall","params":5}`, fid)
						case "strid":
							noise = fmt.Sprintf(`{"jsonrpc":"2.0","id":"%s","result":"STRID"}`, fid)
						case "floatid":
							noise = fmt.Sprintf(`{"jsonrpc":"2.0","id":%s.0,"result":"FLOATID"}`, fid)
						}
						if noise != "" {
							pos := minPos + vs.ChooseFree(len(wire)+1-minPos, "noise-position")
							wire = append(wire[:pos:pos], append([]string{noise}, wire[pos:]...)...)
						}
					}
					for _, w := range wire {
						h.send(w)
					}
				})
				j.Wait()
				vs.AwaitQuiescence()
				vs.Note("quiet")
				n, ok := privLen(c, "pending")
				vs.Note("snapshot", fmt.Sprintf("pending=%d/%v", n, ok))
				err := c.Close()
				vs.Note("ret", "Close", errStr(err))
			}
			check := func(x *vs.Exec) []Viol {
				v := genericRules(x, nil)
				if x.Outcome != "ok" {
					return v
				}
				idOf := map[string]string{}
				seenIDs := map[string]string{}
				for _, e := range x.Log {
					if e.K == "peer-saw" && e.Arg(1) != "" {
						idOf[e.Arg(0)] = e.Arg(1)
						Hit("C04.R5")
						if other, dup := seenIDs[e.Arg(1)]; dup {
							v = append(v, Viol{"C04.R5", fmt.Sprintf("requests %s and %s in flight with the same id %s", other, e.Arg(0), e.Arg(1))})
						}
						seenIDs[e.Arg(1)] = e.Arg(0)
					}
				}
				firstM := methods[p.Perm[0]]
				if p.Callers == 0 {
					Hit("C04.R4")
					r := findEv(x, 0, "ret", "batch")
					if r < 0 {
						return append(v, Viol{"C04.R1", "Batch did not return"})
					}
					want0 := fmt.Sprintf(`%s="R:b0:%s"`, idOf["b0"], idOf["b0"])
					want1 := fmt.Sprintf(`%s="R:b1:%s"`, idOf["b1"], idOf["b1"])
					got := x.Log[r].Arg(2)
					alt := got
					if p.Noise == "dup" {
						alt = strings.Replace(got, `="DUP"`, fmt.Sprintf(`="R:%s:%s"`, firstM, idOf[firstM]), 1)
					}
					if strings.HasPrefix(p.Noise, "badreply-") {
						// the entry whose id the invalid reply carried may have ended with an error (for the bare-id form: with an
						// empty success) instead of its real reply: as for single calls above
						var parts []string
						if cut := strings.LastIndex(got, " "+idOf["b1"]+"="); cut >= 0 {
							parts = []string{got[:cut], got[cut+1:]}
						}
						wants := []string{want0, want1}
						k := 0
						if firstM == "b1" {
							k = 1
						}
						if len(parts) == 2 {
							bareOK := p.Noise == "badreply-bareid" && (parts[k] == idOf[firstM]+"=" || parts[k] == idOf[firstM]+"=null")
							if strings.HasPrefix(parts[k], idOf[firstM]+"=E:") || bareOK {
								parts[k] = wants[k]
								alt = parts[0] + " " + parts[1]
							}
						}
					}
					if x.Log[r].Arg(1) != "ok" || (got != want0+" "+want1 && alt != want0+" "+want1) {
						v = append(v, Viol{"C04.R4", fmt.Sprintf("Batch returned [%s], want [%s %s] (spec order, notifications omitted)", got, want0, want1)})
					}
				} else {
					for _, m := range methods {
						Hit("C04.R1")
						n, at := 0, -1
						for i, e := range x.Log {
							if e.K == "ret" && e.Arg(0) == m {
								n++
								at = i
							}
						}
						if n != 1 {
							v = append(v, Viol{"C04.R1", fmt.Sprintf("Call %s returned %d times", m, n)})
							continue
						}
						e := x.Log[at]
						Hit("C04.R2")
						want := fmt.Sprintf(`"R:%s:%s"`, m, idOf[m])
						okDup := p.Noise == "dup" && m == firstM && e.Arg(3) == `"DUP"`
						if strings.HasPrefix(p.Noise, "badreply-") && m == firstM && e.Arg(1) == "jerr" {
							continue // ended by the invalid reply that carried its id: an error, never a made-up result
						}
						if p.Noise == "badreply-bareid" && m == firstM && e.Arg(1) == "ok" && e.Arg(2) == idOf[m] && (e.Arg(3) == "" || e.Arg(3) == "null") {
							continue // a reply object with neither result nor error: whether that is an empty success or an invalid response is not specified
						}
						if e.Arg(1) != "ok" || e.Arg(2) != idOf[m] || (e.Arg(3) != want && !okDup) {
							v = append(v, Viol{"C04.R2", fmt.Sprintf("Call %s (id %s) completed with %s %s %s: not the reply the peer sent for its id", m, idOf[m], e.Arg(1), e.Arg(2), e.Arg(3))})
						}
					}
				}
				if s := findEv(x, 0, "snapshot"); s >= 0 {
					Hit("C04.R3")
					if a := x.Log[s].Arg(0); strings.HasSuffix(a, "/true") && a != "pending=0/true" {
						v = append(v, Viol{"C04.R3", "requests still pending after every reply was consumed: " + a})
					}
				}
				if p.Noise == "notify+hook" {
					Hit("C04.R7")
					if findEv(x, 0, "hook", "OnNotify", "srvnote") < 0 {
						v = append(v, Viol{"C04.R7", "server notification was not handed to OnNotify"})
					}
				}
				if p.Noise == "callback+hook" {
					Hit("C04.R7")
					if findEv(x, 0, "hook", "OnCallback", "srvcall") < 0 {
						v = append(v, Viol{"C04.R7", "server callback was not handed to OnCallback"})
					}
				}
				return v
			}
			return &Instance{Body: body, Check: check}
		},
	}
}

// c04Reissue: call A's context ends before the peer answers; then call B is issued; the peer answers
// A late and before B. B must complete with its own reply (a late reply is consumed by nobody).
func c04Reissue(b Bounds) *Scenario {
	return &Scenario{
		Name:   "reissue: call A cancelled, call B issued afterwards, late reply to A arrives before the reply to B",
		Params: map[string]any{"history": []string{"Call A", "cancel A", "A returns", "Call B", "late reply to A", "reply to B"}},
		Bounds: b,
		New: func() *Instance {
			h := &cliHarness{}
			body := func() {
				lib, peer, pipe := NewPipe(PipeOpts{Name: "cli", CloseUnblocksRecv: true})
				h.pipe, h.peer = pipe, peer
				c := jrpc2.NewClient(lib, nil)
				ctxA, cancelA := cancelCauseCtx()
				var j Join
				j.Go("caller", func() {
					vs.Event("call", "mA")
					rsp, err := c.Call(ctxA, "mA", nil)
					callRet("mA", rsp, err)
					vs.Event("call", "mB")
					rsp, err = c.Call(context.Background(), "mB", nil)
					callRet("mB", rsp, err)
				})
				j.Go("cancel", func() {
					vs.Await(func() bool { return h.idOf("mA") != "" }, "request A seen")
					vs.Event("env", "cancel")
					cancelA()
				})
				vs.GoNamed("peer", h.peerLoop)
				vs.GoNamed("script", func() {
					vs.Await(func() bool { return h.idOf("mB") != "" || h.peerDone }, "await request B")
					if h.peerDone {
						return
					}
					h.send(replyFor("mA", h.idOf("mA")))
					h.send(replyFor("mB", h.idOf("mB")))
				})
				j.Wait()
				vs.AwaitQuiescence()
				c.Close()
			}
			check := func(x *vs.Exec) []Viol {
				v := genericRules(x, nil)
				if x.Outcome != "ok" {
					return v
				}
				idB := ""
				for _, e := range x.Log {
					if e.K == "peer-saw" && e.Arg(0) == "mB" {
						idB = e.Arg(1)
					}
				}
				r := findEv(x, 0, "ret", "mB")
				Hit("C04.R2")
				if r < 0 {
					return append(v, Viol{"C04.R1", "call B did not return"})
				}
				e := x.Log[r]
				if e.Arg(1) != "ok" || e.Arg(3) != fmt.Sprintf(`"R:mB:%s"`, idB) {
					v = append(v, Viol{"C04.R2", fmt.Sprintf("call B (id %s) completed with %s %s %s: not the reply the peer sent for it (a late reply to the cancelled call A must be consumed by nobody)", idB, e.Arg(1), e.Arg(2), e.Arg(3))})
				}
				return v
			}
			return &Instance{Body: body, Check: check}
		},
	}
}

func perms(n int) [][]int {
	var out [][]int
	var rec func(cur []int, used []bool)
	rec = func(cur []int, used []bool) {
		if len(cur) == n {
			out = append(out, append([]int(nil), cur...))
			return
		}
		for i := 0; i < n; i++ {
			if !used[i] {
				used[i] = true
				rec(append(cur, i), used)
				used[i] = false
			}
		}
	}
	rec(nil, make([]bool, n))
	return out
}

var c04Noises = []string{"dup", "unknown", "badversion", "noid", "notify", "notify+hook", "callback", "callback+hook", "strid", "floatid", "badreq-noversion", "badreq-extra", "badreq-params",
	"badreply-version", "badreply-mixed", "badreply-bareid", "scalar", "scalar-in-array", "ws"}

// c04SendFault: one Send fails transiently (the channel and the client stay alive) while a Call and a
// two-call Batch are being issued concurrently; a further Call follows. The peer withholds every answer
// until nothing moves, so all transmitted requests are in flight together: their ids must be distinct and
// every request must complete with the answer for its own id (or the send error).
func c04SendFault(b Bounds) *Scenario { return c04Abandoned("sendfault", b) }

// mode "badparams": instead of a Send failure, the Batch's second spec has parameters that cannot be
// marshalled, so the Batch is abandoned after ids were drawn for it and nothing is sent.
func c04Abandoned(mode string, b Bounds) *Scenario {
	name := "transient Send failure: Call || Batch[call,call], then Call; answers withheld until quiescence"
	if mode == "badparams" {
		name = "Batch abandoned half-way (second spec cannot be marshalled): Call || Batch[call,bad], then Call; answers withheld until quiescence"
	}
	return &Scenario{
		Name:   name,
		Params: map[string]any{"mode": mode, "answers": "all at once at quiescence, in arrival order"},
		Bounds: b,
		New: func() *Instance {
			body := func() {
				lib, peer, pipe := NewPipe(PipeOpts{Name: "cli", CloseUnblocksRecv: true})
				_ = pipe
				c := jrpc2.NewClient(lib, nil)
				type seenReq struct{ id, method string }
				var seen []seenReq
				vs.GoNamed("peer", func() {
					for {
						rec, ok := peer.Recv()
						if !ok {
							return
						}
						ms, _, _ := parseRecord(rec)
						for _, m := range ms {
							if m.Has("method") && m.Has("id") {
								var meth string
								fmt.Sscanf(m.Str("method"), "%q", &meth)
								seen = append(seen, seenReq{m.ID(), meth})
								vs.Note("peer-saw", meth, m.ID())
							}
						}
					}
				})
				var j Join
				ret := func(name string, rsp *jrpc2.Response, err error) {
					vs.Yield("ret")
					switch {
					case err != nil:
						vs.Note("ret", name, "err", err.Error())
					case rsp.Error() != nil:
						vs.Note("ret", name, "jerr", rsp.Error().Message)
					default:
						vs.Note("ret", name, "ok", rsp.ID(), rsp.ResultString())
					}
				}
				if mode == "sendfault" {
					j.Go("fault", func() { vs.Event("env", "sendfault"); pipe.FailSend = errFault })
				}
				j.Go("A", func() {
					rsp, err := c.Call(context.Background(), "mA", nil)
					ret("mA", rsp, err)
				})
				j.Go("B", func() {
					var p1 any = []int{2}
					if mode == "badparams" {
						p1 = []any{make(chan int)}
					}
					rsps, err := c.Batch(context.Background(), []jrpc2.Spec{{Method: "b0", Params: []int{1}}, {Method: "b1", Params: p1}})
					if err != nil {
						ret("b0", nil, err)
						ret("b1", nil, err)
					} else {
						for i, r := range rsps {
							ret(fmt.Sprintf("b%d", i), r, nil)
						}
					}
					rsp, err := c.Call(context.Background(), "mC", nil)
					ret("mC", rsp, err)
				})
				// answer everything that is in flight once nothing moves, twice (the second round serves mC)
				for round := 0; round < 3; round++ {
					vs.AwaitQuiescence()
					ids := map[string]string{}
					for _, q := range seen {
						if prev, dup := ids[q.id]; dup {
							vs.Note("c04-viol", fmt.Sprintf("requests %s and %s are in flight together with the same id %s", prev, q.method, q.id))
						}
						ids[q.id] = q.method
					}
					for _, q := range seen {
						peer.Send([]byte(fmt.Sprintf(`{"jsonrpc":"2.0","id":%s,"result":"R:%s"}`, q.id, q.method)))
					}
					seen = nil
				}
				vs.AwaitQuiescence()
				c.Close()
				j.Wait()
			}
			check := func(x *vs.Exec) []Viol {
				v := genericRules(x, nil)
				if x.Outcome != "ok" {
					return v
				}
				Hit("C04.R1")
				for _, e := range x.Log {
					if e.K == "c04-viol" {
						v = append(v, Viol{"C04.R1", e.Arg(0)})
					}
				}
				for _, m := range []string{"mA", "b0", "b1", "mC"} {
					i := findEv(x, 0, "ret", m)
					if i < 0 {
						v = append(v, Viol{"C04.R5", "request " + m + " never returned"})
						continue
					}
					e := x.Log[i]
					switch e.Arg(1) {
					case "ok":
						if e.Arg(3) != fmt.Sprintf("%q", "R:"+m) {
							v = append(v, Viol{"C04.R1", fmt.Sprintf("request %s completed with %s, the peer sent %q for its id", m, e.Arg(3), "R:"+m)})
						}
					case "err":
						if !strings.Contains(e.Arg(2), errFault.Error()) && !strings.Contains(e.Arg(2), "closed") && !strings.Contains(e.Arg(2), "cancel") &&
							!(mode == "badparams" && (m == "b0" || m == "b1")) {
							v = append(v, Viol{"C04.R1", fmt.Sprintf("request %s failed with %q, which nothing in the scenario causes", m, e.Arg(2))})
						}
					default:
						v = append(v, Viol{"C04.R1", fmt.Sprintf("request %s completed with an error object the peer never sent: %s", m, e.Arg(2))})
					}
				}
				return v
			}
			return &Instance{Body: body, Check: check}
		},
	}
}

func c04Scenarios(tier string) []*Scenario {
	var out []*Scenario
	q := tier == "quick"
	b2, bn, b3 := Bounds{2, 1, 0}, Bounds{1, 1, 0}, Bounds{1, 1, 0}
	if !q {
		b2, bn, b3 = Bounds{3, 2, 0}, Bounds{1, 2, 0}, Bounds{1, 2, 0}
	}
	for _, pm := range perms(2) {
		out = append(out, c04Scenario(c04P{Callers: 2, Perm: pm}, b2))
		out = append(out, c04Scenario(c04P{Callers: 2, Perm: pm}, Bounds{1, 1, 1})) // with one environment deviation
		out = append(out, c04Scenario(c04P{Callers: 0, Perm: pm}, b2))
		out = append(out, c04Scenario(c04P{Callers: -1, Perm: pm}, b2))
		for _, nz := range c04Noises {
			out = append(out, c04Scenario(c04P{Callers: 2, Perm: pm, Noise: nz}, bn))
			if !q || nz == "dup" || nz == "callback+hook" {
				out = append(out, c04Scenario(c04P{Callers: 0, Perm: pm, Noise: nz}, bn))
			}
		}
	}
	out = append(out, c04Reissue(b2), c04SendFault(bn), c04Abandoned("badparams", bn))
	// a single request pending while stray messages arrive (nothing else they could be mistaken for)
	for _, nz := range []string{"nullid-error", "noid-error", "noid", "unknown", "dup", "badversion"} {
		out = append(out, c04Scenario(c04P{Callers: 1, Perm: []int{0}, Noise: nz}, bn))
	}
	out = append(out, c04Scenario(c04P{Callers: 2, Perm: []int{0, 1}, Noise: "nullid-error"}, bn))
	for i, pm := range perms(3) {
		if q && i%2 == 1 {
			continue
		}
		out = append(out, c04Scenario(c04P{Callers: 3, Perm: pm}, b3))
		if !q {
			for _, nz := range []string{"dup", "unknown", "callback+hook"} {
				out = append(out, c04Scenario(c04P{Callers: 3, Perm: pm, Noise: nz}, Bounds{1, 1, 0}))
			}
		}
	}
	return out
}
