package main

import (
	"crypto/sha256"
	"encoding/hex"
	"fmt"
	"sort"
	"strings"
	"time"

	"verif/vs"
)

// Bounds are the three budgets of the explorer; a negative value is unbounded.
type Bounds struct {
	P int `json:"p"` // preemptions (switching away from a still-enabled thread)
	F int `json:"f"` // free-switch deviations (non-default continuation when the runner blocked or exited)
	D int `json:"d"` // environment deviations (fault, non-first ready case, non-sorted map order, ...)
}

func (b Bounds) String() string {
	s := func(v int) string {
		if v < 0 {
			return "inf"
		}
		return fmt.Sprint(v)
	}
	return "<" + s(b.P) + "," + s(b.F) + "," + s(b.D) + ">"
}

func within(v, bound int) bool { return bound < 0 || v <= bound }

// Viol is one oracle complaint about one execution.
type Viol struct {
	Rule string `json:"rule"` // e.g. "C03.R1" or "G1"
	Msg  string `json:"msg"`
}

// Instance is one fresh instantiation of a scenario (harness state is per execution).
type Instance struct {
	Body  func()
	Check func(x *vs.Exec) []Viol
	// Outcome, if set, replaces the default canonical outcome string (event log) used for
	// counting distinct behaviours.
	Outcome func(x *vs.Exec) string
}

// Scenario is one closed system: library + scripted peer + environment threads.
type Scenario struct {
	Name     string
	Params   map[string]any
	Bounds   Bounds
	MapOrder bool
	// POR runs the scenario in fine-grained mode (every synchronisation operation is its own transition)
	// with sleep-set partial-order reduction; only meaningful with unbounded budgets.
	POR bool
	New func() *Instance
	// Seq marks a non-scheduler scenario (bounded-exhaustive input enumeration); Run is used instead of New.
	Seq func(r *SeqRun)
	// MemLimitMB asks the driver to run the job under an address-space limit.
	MemLimitMB int
}

// Violation found by the explorer, replayable.
type Violation struct {
	Property string   `json:"property"`
	Scenario string   `json:"scenario"`
	Params   any      `json:"params,omitempty"`
	Bounds   Bounds   `json:"bounds"`
	Rule     string   `json:"rule"`
	Msg      string   `json:"msg"`
	Choices  []int    `json:"choices"`
	Log      []string `json:"log,omitempty"`
	Outcome  string   `json:"outcome,omitempty"`
	Detail   string   `json:"detail,omitempty"`
	Stack    string   `json:"stack,omitempty"`
	Input    string   `json:"input,omitempty"` // for sequential checks: the failing input
	Repro    string   `json:"repro,omitempty"` // plain Go reproduction, where available
	Blocked  []string `json:"blocked,omitempty"`
}

// Result of exploring one scenario.
type Result struct {
	Scenario     string         `json:"scenario"`
	Params       any            `json:"params,omitempty"`
	Bounds       Bounds         `json:"bounds"`
	Execs        int            `json:"execs"`
	Nodes        int            `json:"nodes"`
	Steps        int            `json:"steps"`
	MaxPoints    int            `json:"max_points"`
	Cut          bool           `json:"cut"`      // some alternative was skipped because of a budget
	Capped       bool           `json:"capped"`   // wall-clock cap hit: exploration incomplete within the budgets
	Outcomes     []string       `json:"outcomes"` // hashes of distinct canonical outcomes
	Nontrivial   []string       `json:"nontrivial"`
	RuleHits     map[string]int `json:"rule_hits,omitempty"`
	Violations   []Violation    `json:"violations,omitempty"`
	Sample       any            `json:"sample,omitempty"`
	SleepBlocked int            `json:"sleep_blocked,omitempty"` // POR: runs cut because every enabled thread was asleep (redundant reorderings; not counted as executions)
	POR          bool           `json:"por,omitempty"`
	Replayed     int            `json:"replayed"` // executions re-run for the determinism check
	EngineError  string         `json:"engine_error,omitempty"`
	WallS        float64        `json:"wall_s"`
	Seq          bool           `json:"seq,omitempty"`
	Extra        map[string]any `json:"extra,omitempty"`
}

var ruleHits map[string]int

// Hit records that an oracle rule had something to judge in the current execution.
func Hit(rule string) {
	if ruleHits != nil {
		ruleHits[rule]++
	}
}

func hash(s string) string {
	h := sha256.Sum256([]byte(s))
	return hex.EncodeToString(h[:8])
}

func logStrings(x *vs.Exec) []string {
	out := make([]string, len(x.Log))
	for i, e := range x.Log {
		out[i] = e.String()
	}
	return out
}

func canonical(x *vs.Exec) string {
	var sb strings.Builder
	sb.WriteString(x.Outcome)
	sb.WriteString("|")
	if x.Outcome == "panic" {
		sb.WriteString(x.Detail)
	}
	for _, e := range x.Log {
		sb.WriteString(e.K)
		sb.WriteByte(' ')
		sb.WriteString(strings.Join(e.A, " "))
		sb.WriteByte(';')
	}
	var bl []string
	for _, b := range x.Blocked {
		bl = append(bl, b.Name+":"+b.Desc)
	}
	sort.Strings(bl)
	sb.WriteString(strings.Join(bl, ","))
	return sb.String()
}

// nontrivial: the log shows events of at least two different threads interleaved
// (a thread's events are not contiguous), or the outcome is not ok.
func nontrivial(x *vs.Exec) bool {
	if x.Outcome != "ok" {
		return true
	}
	seen := map[int]bool{}
	last := -1
	for _, e := range x.Log {
		if e.T != last {
			if seen[e.T] {
				return true
			}
			seen[e.T] = true
			last = e.T
		}
	}
	return false
}

type explorer struct {
	sc         *Scenario
	prop       string
	res        *Result
	outcomes   map[string]bool
	nontriv    map[string]bool
	deadline   time.Time
	maxViol    int
	violKeys   map[string]bool
	stopAfter  bool
	fine       bool // fine-grained transitions without reduction (used to validate the reduction)
	keys       map[string]bool
	livelocked bool
}

func (e *explorer) runOnce(prefix []int) (*vs.Exec, *Instance) {
	inst := e.sc.New()
	vs.MapOrderChoices = e.sc.MapOrder
	vs.POR, vs.Fine = e.sc.POR, e.sc.POR || e.fine
	x := vs.Run(prefix, inst.Body)
	vs.POR, vs.Fine = false, false
	return x, inst
}

func costs(x *vs.Exec, upto int) (p, f, d int) {
	for j := 0; j < upto; j++ {
		pt := x.Points[j]
		if pt.Chosen == 0 {
			continue
		}
		switch {
		case pt.Kind == vs.PFree:
		case pt.Kind == vs.PEnv:
			d++
		case pt.CurEnabled:
			p++
		default:
			f++
		}
	}
	return
}

func (e *explorer) explore(prefix []int) {
	if e.res.Capped || e.res.EngineError != "" {
		return
	}
	if !e.deadline.IsZero() && time.Now().After(e.deadline) {
		e.res.Capped = true
		return
	}
	if e.livelocked {
		// every further schedule of a scenario that can loop for ever costs a full horizon: one report is enough
		e.res.Capped = true
		return
	}
	x, inst := e.runOnce(prefix)
	e.res.Steps += x.Steps
	e.res.Nodes += len(x.Points) - len(prefix)
	if len(x.Points) > e.res.MaxPoints {
		e.res.MaxPoints = len(x.Points)
	}
	if x.Outcome == "engine-error" {
		e.res.EngineError = fmt.Sprintf("%s (choices %v)", x.Detail, x.Choices())
		return
	}
	if x.Outcome == "sleep-blocked" {
		// a redundant reordering: nothing to judge, but the nodes on the way still have unexplored alternatives
		e.res.SleepBlocked++
		e.branch(x, prefix)
		return
	}
	e.res.Execs++
	var key string
	if inst.Outcome != nil {
		key = inst.Outcome(x)
	} else {
		key = canonical(x)
	}
	if e.keys != nil {
		e.keys[key] = true
	}
	h := hash(key)
	if !e.outcomes[h] {
		e.outcomes[h] = true
		if nontrivial(x) {
			e.nontriv[h] = true
		}
	}
	viols := inst.Check(x)
	// determinism discipline: every violating execution and every 500th execution is re-run
	if len(viols) > 0 || e.res.Execs%500 == 1 {
		for k := 0; k < 2; k++ {
			y, inst2 := e.runOnce(x.Choices())
			e.res.Replayed++
			var key2 string
			if inst2.Outcome != nil {
				key2 = inst2.Outcome(y)
			} else {
				key2 = canonical(y)
			}
			if key2 != key || len(y.Points) != len(x.Points) {
				e.res.EngineError = fmt.Sprintf("non-deterministic replay of choices %v:\n first: %s\n again: %s", x.Choices(), key, key2)
				return
			}
			if len(viols) == 0 {
				break
			}
		}
	}
	for _, v := range viols {
		vk := v.Rule + "|" + v.Msg
		if e.violKeys[vk] || len(e.res.Violations) >= e.maxViol {
			continue
		}
		e.violKeys[vk] = true
		vv := Violation{Property: e.prop, Scenario: e.sc.Name, Params: e.sc.Params, Bounds: e.sc.Bounds,
			Rule: v.Rule, Msg: v.Msg, Choices: trimZeros(x.Choices()), Log: logStrings(x), Outcome: x.Outcome, Detail: x.Detail, Stack: trimStack(x.Stack)}
		for _, b := range x.Blocked {
			vv.Blocked = append(vv.Blocked, fmt.Sprintf("T%d(%s) %s", b.ID, b.Name, b.Desc))
		}
		e.res.Violations = append(e.res.Violations, vv)
	}
	if x.Outcome == "livelock" {
		e.livelocked = true
		return
	}
	if e.res.Sample == nil || (e.res.Execs == 7) {
		e.res.Sample = map[string]any{"choices": x.Choices(), "outcome": x.Outcome, "log": logStrings(x)}
	}
	e.branch(x, prefix)
}

func (e *explorer) branch(x *vs.Exec, prefix []int) {
	b := e.sc.Bounds
	for i := len(prefix); i < len(x.Points); i++ {
		pt := x.Points[i]
		p, f, d := costs(x, i)
		switch {
		case pt.Kind == vs.PFree:
		case pt.Kind == vs.PEnv:
			d++
		case pt.CurEnabled:
			p++
		default:
			f++
		}
		if !within(p, b.P) || !within(f, b.F) || !within(d, b.D) {
			if pt.N > 1 {
				e.res.Cut = true
			}
			continue
		}
		for alt := 1; alt < pt.N; alt++ {
			np := make([]int, i+1)
			for j := 0; j < i; j++ {
				np[j] = x.Points[j].Chosen
			}
			np[i] = alt
			e.explore(np)
			if e.res.Capped || e.res.EngineError != "" {
				return
			}
		}
	}
}

func trimStack(s string) string {
	lines := strings.Split(s, "\n")
	if len(lines) > 60 {
		lines = lines[:60]
	}
	return strings.Join(lines, "\n")
}

// exploreScenario explores sc within its bounds from the given root prefixes (nil = whole tree).
func exploreScenario(prop string, sc *Scenario, budget time.Duration) *Result {
	t0 := time.Now()
	res := &Result{Scenario: sc.Name, Params: sc.Params, Bounds: sc.Bounds}
	ruleHits = map[string]int{}
	if sc.Seq != nil {
		r := &SeqRun{res: res, prop: prop, sc: sc, outcomes: map[string]bool{}, nontriv: map[string]bool{}}
		if budget > 0 {
			r.deadline = t0.Add(budget)
		}
		res.Seq = true
		func() {
			defer func() {
				if p := recover(); p != nil {
					res.EngineError = fmt.Sprintf("sequential check panicked outside a guarded call: %v", p)
				}
			}()
			sc.Seq(r)
		}()
		res.Outcomes = keys(r.outcomes)
		res.Nontrivial = keys(r.nontriv)
	} else {
		e := &explorer{sc: sc, prop: prop, res: res, outcomes: map[string]bool{}, nontriv: map[string]bool{}, maxViol: 5, violKeys: map[string]bool{}}
		res.POR = sc.POR
		if budget > 0 {
			e.deadline = t0.Add(budget)
		}
		e.explore(nil)
		res.Outcomes = keys(e.outcomes)
		res.Nontrivial = keys(e.nontriv)
	}
	res.RuleHits = ruleHits
	ruleHits = nil
	res.WallS = time.Since(t0).Seconds()
	return res
}

func keys(m map[string]bool) []string {
	out := make([]string, 0, len(m))
	for k := range m {
		out = append(out, k)
	}
	sort.Strings(out)
	return out
}

// SeqRun is the context of a bounded-exhaustive sequential check.
type SeqRun struct {
	res      *Result
	prop     string
	sc       *Scenario
	outcomes map[string]bool
	nontriv  map[string]bool
	deadline time.Time
	nviol    map[string]int
}

// Case records one evaluated input with its outcome class.
func (r *SeqRun) Case(class string, nontrivial bool) {
	r.res.Execs++
	r.res.Nodes++
	r.res.Steps++
	if !r.outcomes[class] {
		r.outcomes[class] = true
		if nontrivial {
			r.nontriv[class] = true
		}
	}
}

// Calls adds n library calls to the transition count.
func (r *SeqRun) Calls(n int) { r.res.Steps += n }

// Sample stores an example case.
func (r *SeqRun) Sample(v any) {
	if r.res.Sample == nil {
		r.res.Sample = v
	}
}

// Expired reports whether the wall-clock budget is used up (the run is then reported as capped).
func (r *SeqRun) Expired() bool {
	if !r.deadline.IsZero() && time.Now().After(r.deadline) {
		r.res.Capped = true
		return true
	}
	return false
}

// Fail records a violation for an input (at most 3 per rule are kept).
func (r *SeqRun) Fail(rule, input, msg, repro string) {
	if r.nviol == nil {
		r.nviol = map[string]int{}
	}
	r.nviol[rule]++
	if r.nviol[rule] > 3 {
		return
	}
	r.res.Violations = append(r.res.Violations, Violation{Property: r.prop, Scenario: r.sc.Name, Params: r.sc.Params,
		Rule: rule, Msg: msg, Input: input, Repro: repro})
}

// Extra attaches additional coverage facts to the result.
func (r *SeqRun) Extra(k string, v any) {
	if r.res.Extra == nil {
		r.res.Extra = map[string]any{}
	}
	r.res.Extra[k] = v
}

// trimZeros drops trailing default choices: a replay takes choice 0 wherever the list has ended.
func trimZeros(c []int) []int {
	n := len(c)
	for n > 0 && c[n-1] == 0 {
		n--
	}
	return append([]int(nil), c[:n]...)
}
