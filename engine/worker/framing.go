package main

import (
	"bytes"
	"encoding/json"
	"errors"
	"fmt"
	"io"
	"os"
	"strconv"
	"strings"

	"github.com/creachadair/jrpc2/channel"
	"verif/vs"
)

// ---------------------------------------------------------------------------
// C11 / C12 — framings: round trip under any fragmentation; robustness on
// arbitrary streams. Bounded-exhaustive enumeration (E2) of record sequences,
// byte streams and read fragmentations against reference decoders.

func init() {
	register("C11", c11Scenarios)
	register("C12", c12Scenarios)
}

// cutReader delivers data in chunks ending at the given cut positions; the last
// chunk is returned together with io.EOF when eofWithLast is set.
type cutReader struct {
	data        []byte
	cuts        []int // ascending positions in (0,len)
	pos         int
	eofWithLast bool
	oneByte     bool
}

func (r *cutReader) Read(p []byte) (int, error) {
	if r.pos >= len(r.data) {
		return 0, io.EOF
	}
	end := len(r.data)
	if r.oneByte {
		end = r.pos + 1
	} else {
		for _, c := range r.cuts {
			if c > r.pos {
				end = c
				break
			}
		}
	}
	if end > len(r.data) {
		end = len(r.data)
	}
	if end-r.pos > len(p) {
		end = r.pos + len(p)
	}
	n := copy(p, r.data[r.pos:end])
	r.pos += n
	if r.pos >= len(r.data) && r.eofWithLast {
		return n, io.EOF
	}
	return n, nil
}

type bufWC struct {
	bytes.Buffer
	closed bool
	closes int
	writes int
}

func (b *bufWC) Write(p []byte) (int, error) { b.writes++; return b.Buffer.Write(p) }
func (b *bufWC) Close() error                { b.closed = true; b.closes++; return nil }

type framingSpec struct {
	Name    string
	F       channel.Framing
	Kind    string // split, header, rawjson
	Split   byte
	MType   string
	Strict  bool
	Records [][]byte // alphabet of legal records for round trips
}

func framingByName(n string) framingSpec {
	for _, f := range framings() {
		if f.Name == n {
			return f
		}
	}
	panic("no framing " + n)
}

func framings() []framingSpec {
	hdrRecs := [][]byte{[]byte(""), []byte("a"), []byte("x\r\n\r\ny"), []byte("Content-Length: 9\r\n\r\n"), []byte(`{"k":[1,2]}`), []byte("\n")}
	return []framingSpec{
		{Name: "Line", F: channel.Line, Kind: "split", Split: '\n', Records: [][]byte{[]byte(""), []byte("a"), []byte("ab\r"), {0xff, 0x00}, []byte(`{"a":1}`), []byte(" ")}},
		{Name: "Split(0x1e)", F: channel.Split(0x1e), Kind: "split", Split: 0x1e, Records: [][]byte{[]byte(""), []byte("a"), []byte("ab\r\n"), {0xff, 0x00}, []byte(`{"a":1}`), []byte("\n")}},
		{Name: `Header("")`, F: channel.Header(""), Kind: "header", MType: "", Records: hdrRecs},
		{Name: `Header("a/b")`, F: channel.Header("a/b"), Kind: "header", MType: "a/b", Records: hdrRecs},
		{Name: `StrictHeader("a/b")`, F: channel.StrictHeader("a/b"), Kind: "header", MType: "a/b", Strict: true, Records: hdrRecs},
		{Name: "LSP", F: channel.LSP, Kind: "header", MType: "application/vscode-jsonrpc; charset=utf-8", Records: hdrRecs},
		// a split byte above 0x7f: records may contain the UTF-8 encoding of the rune of the same number (c3 bf), not the byte itself
		{Name: "Split(0xff)", F: channel.Split(0xff), Kind: "split", Split: 0xff, Records: [][]byte{[]byte(""), []byte("a"), {'c', 'a', 'f', 0xc3, 0xbf}, {0xfe, 0x00, 0xc3}, []byte("é\n"), {0xbf}}},
		{Name: "RawJSON", F: channel.RawJSON, Kind: "rawjson", Records: [][]byte{[]byte(`{}`), []byte(`[1, 2]`), []byte(`"a b"`), []byte("{\"k\":\n[1,\n{\"x\":\"}\"}]}"), []byte(`[]`), []byte(`"\"["`)}},
	}
}

// guarded runs f, turning a panic into an error string.
func guarded(f func()) (panicked string) {
	defer func() {
		if p := recover(); p != nil {
			panicked = fmt.Sprint(p)
		}
	}()
	f()
	return ""
}

// forCutSets calls f for every cut set of at most maxCuts cuts of a stream of length n,
// each with the last chunk delivered with and without io.EOF, plus the one-byte reader.
func forCutSets(n, maxCuts int, f func(cuts []int, eofWithLast, oneByte bool) bool) {
	var rec func(start int, cur []int) bool
	rec = func(start int, cur []int) bool {
		for _, e := range []bool{false, true} {
			if !f(cur, e, false) {
				return false
			}
		}
		if len(cur) == maxCuts {
			return true
		}
		for c := start; c < n; c++ {
			if !rec(c+1, append(cur, c)) {
				return false
			}
		}
		return true
	}
	if !rec(1, nil) {
		return
	}
	for _, e := range []bool{false, true} {
		if !f(nil, e, true) {
			return
		}
	}
}

func reproRoundTrip(fs framingSpec, recs [][]byte, cuts []int, eof, oneByte bool) string {
	return fmt.Sprintf("framing %s; Send each of %q; read back with cuts %v eofWithLast=%v oneByte=%v", fs.Name, recs, cuts, eof, oneByte)
}

// c11RoundTrip: sequences of records through the real Send, read back under every fragmentation.
func c11RoundTrip(fs framingSpec, maxLen int, quick bool) *Scenario {
	return &Scenario{
		Name:   fmt.Sprintf("round-trip %s sequences<=%d", fs.Name, maxLen),
		Params: map[string]any{"framing": fs.Name, "records": fmt.Sprintf("%q", fs.Records), "max_sequence_length": maxLen},
		Seq: func(r *SeqRun) {
			var seqs [][]int
			var gen func(cur []int)
			gen = func(cur []int) {
				if len(cur) > 0 {
					seqs = append(seqs, append([]int(nil), cur...))
				}
				if len(cur) == maxLen {
					return
				}
				for i := range fs.Records {
					gen(append(cur, i))
				}
			}
			gen(nil)
			seqs = append([][]int{{}}, seqs...) // the empty sequence: immediate EOF
			for _, sq := range seqs {
				if r.Expired() {
					return
				}
				var recs [][]byte
				for _, i := range sq {
					recs = append(recs, fs.Records[i])
				}
				w := &bufWC{}
				sender := fs.F(bytes.NewReader(nil), w)
				for _, rec := range recs {
					if err := sender.Send(append([]byte(nil), rec...)); err != nil {
						r.Fail("C11.R1", fmt.Sprintf("%s %q", fs.Name, rec), "Send refused a legal record: "+err.Error(), "")
					}
				}
				stream := append([]byte(nil), w.Bytes()...)
				n := len(stream)
				maxCuts := 1
				switch {
				case n <= 24:
					maxCuts = 3
				case n <= 70:
					maxCuts = 2
				}
				if quick && maxCuts > 1 {
					maxCuts--
				}
				if quick && n > 150 {
					maxCuts = 0
				}
				forCutSets(n, maxCuts, func(cuts []int, eof, oneByte bool) bool {
					rd := &cutReader{data: stream, cuts: cuts, eofWithLast: eof, oneByte: oneByte}
					ch := fs.F(rd, &bufWC{})
					var got [][]byte
					var errs []error
					p := guarded(func() {
						for i := 0; i < len(recs)+2; i++ {
							b, err := ch.Recv()
							r.Calls(1)
							if err != nil {
								errs = append(errs, err)
								if len(errs) == 2 {
									break
								}
								continue
							}
							if len(errs) > 0 {
								errs = append(errs, nil)
								break
							}
							got = append(got, append([]byte(nil), b...))
						}
					})
					class := fmt.Sprintf("%s/len%d/cuts%d/eof%v/one%v", fs.Name, len(recs), len(cuts), eof, oneByte)
					r.Case(class, len(cuts) > 0 || oneByte || eof)
					if p != "" {
						r.Fail("C11.R1", reproRoundTrip(fs, recs, cuts, eof, oneByte), "panic: "+p, "")
						return true
					}
					ok := len(got) == len(recs)
					if ok {
						for i := range got {
							if !bytes.Equal(got[i], recs[i]) {
								ok = false
							}
						}
					}
					if !ok {
						r.Fail("C11.R1", reproRoundTrip(fs, recs, cuts, eof, oneByte), fmt.Sprintf("received %q, sent %q", got, recs), "")
					} else if len(errs) != 2 || errs[0] != io.EOF || errs[1] != io.EOF {
						r.Fail("C11.R2", reproRoundTrip(fs, recs, cuts, eof, oneByte), fmt.Sprintf("after the last record Recv must return io.EOF and keep returning it; got %v", errs), "")
					}
					return !r.Expired()
				})
			}
			r.Sample(map[string]any{"framing": fs.Name, "sequence": fmt.Sprintf("%q", fs.Records[:2]), "cuts": []int{1, 3}, "eof_with_last_chunk": true})
		},
	}
}

// c11Bytes: every byte value inside records (alone, leading, trailing, doubled), for every stream framing.
func c11Bytes(fs framingSpec) *Scenario {
	return &Scenario{
		Name:   fmt.Sprintf("byte values %s: every byte 0x00..0xff alone / leading / trailing / doubled in a record", fs.Name),
		Params: map[string]any{"framing": fs.Name, "fragmentation": "no cut, every single cut, one-byte reads"},
		Seq: func(r *SeqRun) {
			for b := 0; b < 256; b++ {
				if r.Expired() {
					return
				}
				c := byte(b)
				var recs [][]byte
				switch fs.Kind {
				case "split":
					if c == fs.Split {
						continue
					}
					recs = [][]byte{{c}, {'a', c}, {c, 'a'}, {c, c}, []byte("x")}
				case "rawjson":
					if b >= 0x80 {
						continue
					}
					j1, _ := json.Marshal(string(rune(c)))
					j2, _ := json.Marshal(map[string]any{string(rune(c)): []any{string(rune(c)) + "a"}})
					recs = [][]byte{j1, j2, []byte("[1]")}
				default:
					recs = [][]byte{{c}, {'a', c}, {c, 'a'}, {c, c}, []byte("x")}
				}
				w := &bufWC{}
				sender := fs.F(bytes.NewReader(nil), w)
				for _, rec := range recs {
					if err := sender.Send(append([]byte(nil), rec...)); err != nil {
						r.Fail("C11.R1", fmt.Sprintf("%s %q", fs.Name, rec), "Send refused a legal record: "+err.Error(), "")
					}
				}
				stream := append([]byte(nil), w.Bytes()...)
				forCutSets(len(stream), 1, func(cuts []int, eof, oneByte bool) bool {
					rd := &cutReader{data: stream, cuts: cuts, eofWithLast: eof, oneByte: oneByte}
					ch := fs.F(rd, &bufWC{})
					var got [][]byte
					var last error
					p := guarded(func() {
						for i := 0; i < len(recs)+1; i++ {
							rec, err := ch.Recv()
							r.Calls(1)
							if err != nil {
								last = err
								break
							}
							got = append(got, append([]byte(nil), rec...))
						}
					})
					r.Case(fmt.Sprintf("%s/bytes/cuts%d/one%v", fs.Name, len(cuts), oneByte), true)
					ok := p == "" && len(got) == len(recs) && last == io.EOF
					for i := 0; ok && i < len(recs); i++ {
						ok = bytes.Equal(got[i], recs[i])
					}
					if !ok {
						r.Fail("C11.R1", reproRoundTrip(fs, recs, cuts, eof, oneByte), fmt.Sprintf("received %q then %v (panic %q), sent %q then EOF", got, last, p, recs), "")
					}
					return true
				})
			}
			r.Sample(map[string]any{"framing": fs.Name, "records": []string{"\r", "a\r", "\ra", "\r\r", "x"}})
		},
	}
}

// c11Sizes: record sizes around the buffer boundaries, growing and shrinking.
func c11Sizes(fs framingSpec, sizes []int, maxLen int) *Scenario {
	return &Scenario{
		Name:   fmt.Sprintf("sizes %s sequences<=%d over %v", fs.Name, maxLen, sizes),
		Params: map[string]any{"framing": fs.Name, "sizes": sizes, "cut_patterns": []string{"none", "inside-first-header", "every-1KiB"}},
		Seq: func(r *SeqRun) {
			mk := func(n int) []byte {
				if fs.Kind == "rawjson" {
					b := bytes.Repeat([]byte{'a'}, n+2)
					b[0], b[n+1] = '"', '"'
					return b
				}
				b := make([]byte, n)
				for i := range b {
					b[i] = 'a' + byte(i%26)
				}
				return b
			}
			var rec func(cur []int)
			rec = func(cur []int) {
				if r.Expired() {
					return
				}
				if len(cur) > 0 {
					var recs [][]byte
					for _, s := range cur {
						recs = append(recs, mk(s))
					}
					w := &bufWC{}
					sender := fs.F(bytes.NewReader(nil), w)
					for _, rc := range recs {
						sender.Send(append([]byte(nil), rc...))
					}
					stream := w.Bytes()
					for _, pat := range []string{"none", "header", "1k"} {
						var cuts []int
						switch pat {
						case "header":
							cuts = []int{1, 7}
						case "1k":
							for c := 1024; c < len(stream); c += 1024 {
								cuts = append(cuts, c)
							}
						}
						for _, eof := range []bool{false, true} {
							ch := fs.F(&cutReader{data: stream, cuts: cuts, eofWithLast: eof}, &bufWC{})
							okAll := true
							p := guarded(func() {
								for i, want := range recs {
									b, err := ch.Recv()
									r.Calls(1)
									if err != nil || !bytes.Equal(b, want) {
										okAll = false
										r.Fail("C11.R1", fmt.Sprintf("%s sizes %v cut-pattern %s eof=%v", fs.Name, cur, pat, eof),
											fmt.Sprintf("record %d (size %d): got %d bytes, err=%v", i, len(want), len(b), err), "")
										return
									}
								}
								if _, err := ch.Recv(); err != io.EOF {
									okAll = false
									r.Fail("C11.R2", fmt.Sprintf("%s sizes %v cut-pattern %s eof=%v", fs.Name, cur, pat, eof), fmt.Sprintf("want io.EOF after the last record, got %v", err), "")
								}
							})
							if p != "" {
								r.Fail("C11.R1", fmt.Sprintf("%s sizes %v", fs.Name, cur), "panic: "+p, "")
							}
							_ = okAll
							r.Case(fmt.Sprintf("%s/%d/%s/%v/%v", fs.Name, len(cur), pat, eof, cur[len(cur)-1] > 4096), true)
						}
					}
				}
				if len(cur) < maxLen {
					for _, s := range sizes {
						rec(append(cur, s))
					}
				}
			}
			rec(nil)
			r.Sample(map[string]any{"framing": fs.Name, "sizes": sizes[:2], "cut_pattern": "every-1KiB"})
		},
	}
}

// c11SplitGuard: Send refuses, writing nothing, a record containing the split byte.
func c11SplitGuard() *Scenario {
	return &Scenario{
		Name:   "split-byte guard: every record of length<=4 over {a, split}",
		Params: map[string]any{"framings": []string{"Line", "Split(0x1e)", "Split(0xff)", "Split(0x80)"}},
		Seq: func(r *SeqRun) {
			for _, fs := range []framingSpec{framingByName("Line"), framingByName("Split(0x1e)"), framingByName("Split(0xff)"), {Name: "Split(0x80)", F: channel.Split(0x80), Kind: "split", Split: 0x80}} {
				var rec func(cur []byte)
				rec = func(cur []byte) {
					w := &bufWC{}
					ch := fs.F(bytes.NewReader(nil), w)
					err := ch.Send(append([]byte(nil), cur...))
					r.Calls(1)
					has := bytes.IndexByte(cur, fs.Split) >= 0
					r.Case(fmt.Sprintf("%s/%d/%v", fs.Name, len(cur), has), has)
					if has && (err == nil || w.Len() != 0) {
						r.Fail("C11.R3", fmt.Sprintf("%s Send(%q)", fs.Name, cur), fmt.Sprintf("record containing the split byte: err=%v, %d bytes written", err, w.Len()), "")
					}
					if !has && (err != nil || !bytes.Equal(w.Bytes(), append(append([]byte(nil), cur...), fs.Split))) {
						r.Fail("C11.R1", fmt.Sprintf("%s Send(%q)", fs.Name, cur), fmt.Sprintf("legal record: err=%v wrote %q", err, w.Bytes()), "")
					}
					if len(cur) < 4 {
						rec(append(append([]byte(nil), cur...), 'a'))
						rec(append(append([]byte(nil), cur...), fs.Split))
						if fs.Split >= 0x80 { // the two bytes of the UTF-8 encoding of rune(split) are legal payload
							rec(append(append([]byte(nil), cur...), 0xc0|fs.Split>>6))
							rec(append(append([]byte(nil), cur...), 0x80|fs.Split&0x3f))
						}
					}
				}
				rec(nil)
			}
			// closing a channel closes its writer (that is how the receiving end gets to see io.EOF), once, and writes nothing
			for _, fs := range framings() {
				w := &bufWC{}
				ch := fs.F(bytes.NewReader(nil), w)
				ch.Send([]byte(`{"a":1}`))
				n := w.Len()
				err := ch.Close()
				r.Calls(1)
				r.Case("close/"+fs.Kind, true)
				Hit("C11.R2")
				if err != nil || w.closes != 1 || w.Len() != n {
					r.Fail("C11.R2", fs.Name+" Close", fmt.Sprintf("err=%v, the writer was closed %d times (want once), %d bytes written by Close", err, w.closes, w.Len()-n), "")
				}
			}
			r.Sample(map[string]any{"framing": "Line", "record": "a\na"})
		},
	}
}

// c11Direct: channel.Direct under the scheduler: pipelined sends, all interleavings.
func c11Direct(b Bounds) *Scenario {
	return &Scenario{
		Name:   "Direct: 3 records pipelined, receiver concurrently, close",
		Params: map[string]any{"records": 3},
		Bounds: b,
		New: func() *Instance {
			body := func() {
				cl, sv := channel.Direct()
				var j Join
				j.Go("sender", func() {
					for i := 0; i < 3; i++ {
						if err := cl.Send([]byte(fmt.Sprintf("r%d", i))); err != nil {
							vs.Note("send-error", err.Error())
						}
					}
					cl.Close()
				})
				j.Go("receiver", func() {
					for i := 0; i < 5; i++ {
						b, err := sv.Recv()
						vs.Note("recv", string(b), errStr(err))
						if err != nil && i >= 4 {
							break
						}
					}
				})
				j.Wait()
			}
			check := func(x *vs.Exec) []Viol {
				v := genericRules(x, nil)
				var got []string
				for _, e := range x.Log {
					if e.K == "recv" {
						got = append(got, e.Arg(0)+"/"+e.Arg(1))
					}
					if e.K == "send-error" {
						v = append(v, Viol{"C11.R1", "Direct Send failed: " + e.Arg(0)})
					}
				}
				Hit("C11.R1")
				want := "r0/<nil> r1/<nil> r2/<nil> /EOF /EOF"
				if x.Outcome == "ok" && strings.Join(got, " ") != want {
					v = append(v, Viol{"C11.R1", fmt.Sprintf("Direct delivered %q, want %q", strings.Join(got, " "), want)})
				}
				return v
			}
			return &Instance{Body: body, Check: check}
		},
	}
}

// c11DirectSeq: every sequence of <=3 records over {nil, empty, "a", LF, 4097 bytes} through
// channel.Direct, in both directions, sender pipelining and then closing.
func c11DirectSeq() *Scenario {
	return &Scenario{
		Name:   "Direct: every record sequence of length<=3 over {nil, empty, a, LF, 4097 bytes}, both directions",
		Params: map[string]any{"records": []string{"nil slice", "empty non-nil slice", "a", "\n", "4097 x 'x'"}, "max_len": 3},
		Seq: func(r *SeqRun) {
			alpha := [][]byte{nil, {}, []byte("a"), []byte("\n"), bytes.Repeat([]byte("x"), 4097)}
			var seqs [][]int
			var gen func(cur []int)
			gen = func(cur []int) {
				seqs = append(seqs, append([]int(nil), cur...))
				if len(cur) < 3 {
					for i := range alpha {
						gen(append(cur, i))
					}
				}
			}
			gen(nil)
			for _, sq := range seqs {
				for dir := 0; dir < 2; dir++ {
					var got [][]byte
					var errs []string
					sendErr := ""
					x := vs.Run(nil, func() {
						a, b := channel.Direct()
						if dir == 1 {
							a, b = b, a
						}
						var j Join
						j.Go("sender", func() {
							for _, i := range sq {
								var rec []byte
								if alpha[i] != nil {
									rec = append([]byte{}, alpha[i]...)
								}
								if err := a.Send(rec); err != nil {
									sendErr = err.Error()
								}
							}
							a.Close()
						})
						j.Go("receiver", func() {
							for k := 0; k < len(sq)+2; k++ {
								rec, err := b.Recv()
								if err != nil {
									errs = append(errs, err.Error())
									continue
								}
								got = append(got, append([]byte{}, rec...))
							}
						})
						j.Wait()
					})
					r.Calls(x.Steps)
					desc := fmt.Sprintf("Direct dir=%d records %v", dir, sq)
					r.Case(fmt.Sprintf("direct/%d", len(sq)), true)
					Hit("C11.R1")
					if x.Outcome != "ok" {
						r.Fail("C11.R1", desc, "run ended with "+x.Outcome+" "+firstLine(x.Detail), "")
						continue
					}
					if sendErr != "" {
						r.Fail("C11.R1", desc, "Send failed: "+sendErr, "")
					}
					ok := len(got) == len(sq) && len(errs) == 2 && errs[0] == "EOF" && errs[1] == "EOF"
					for k := 0; ok && k < len(sq); k++ {
						ok = bytes.Equal(got[k], alpha[sq[k]])
					}
					if !ok {
						var lens []int
						for _, g := range got {
							lens = append(lens, len(g))
						}
						r.Fail("C11.R1", desc, fmt.Sprintf("received %d records (lengths %v) and errors %v; want the %d records sent, then EOF, EOF", len(got), lens, errs, len(sq)), "")
					}
				}
			}
			r.Sample(map[string]any{"records": []string{"a", "nil", "a"}})
		},
	}
}

// yieldWC is a transport that takes the bytes of one Write in two steps with a scheduling point in
// between (a pipe whose reader is slow); yieldR hands its data out in halves the same way.
type yieldWC struct{ buf []byte }

func (w *yieldWC) Write(p []byte) (int, error) {
	h := len(p) / 2
	w.buf = append(w.buf, p[:h]...)
	vs.Yield("write")
	w.buf = append(w.buf, p[h:]...)
	return len(p), nil
}
func (w *yieldWC) Close() error { return nil }

type yieldR struct {
	data  []byte
	reads int
}

func (r *yieldR) Read(p []byte) (int, error) {
	if len(r.data) == 0 {
		return 0, io.EOF
	}
	n := len(r.data)
	if r.reads++; r.reads == 1 {
		n = (n + 1) / 2
	}
	if n > len(p) {
		n = len(p)
	}
	vs.Yield("read")
	copy(p, r.data[:n])
	r.data = r.data[n:]
	return n, nil
}

// c11TwoChannels: two channels made by ONE Framing value (two connections of one server, say) are
// used at the same time by two goroutines. Each connection must still carry exactly its own records:
// nothing of a framing's per-channel state may be shared between the channels it creates.
func c11TwoChannels(fs framingSpec) *Scenario {
	recs := map[string][]string{
		"A": {`{"conn":"A","n":1,"pad":"aaaaaaaaaaaaaaaaaaaaaaaaaaaaaaaaaaaaaaaaaaaaaaaa"}`, `{"conn":"A","n":2}`},
		"B": {`{"conn":"B"}`, `{"conn":"B","n":2,"pad":"bbbbbbbbbbbbbbbbbbbbbbbb"}`},
	}
	return &Scenario{
		Name:   fs.Name + ": two channels of one framing value, sending and then receiving concurrently",
		Params: map[string]any{"framing": fs.Name, "records": recs},
		Bounds: Bounds{3, -1, 0},
		New: func() *Instance {
			body := func() {
				w := map[string]*yieldWC{"A": {}, "B": {}}
				var j Join
				for _, c := range []string{"A", "B"} {
					c := c
					ch := fs.F(bytes.NewReader(nil), w[c])
					j.Go("send"+c, func() {
						for _, r := range recs[c] {
							if err := ch.Send([]byte(r)); err != nil {
								vs.Yield("note")
								vs.Note("send-error", c, err.Error())
							}
						}
					})
				}
				j.Wait()
				var k Join
				for _, c := range []string{"A", "B"} {
					c := c
					ch := fs.F(&yieldR{data: w[c].buf}, &bufWC{})
					k.Go("recv"+c, func() {
						var got []string
						for i := 0; i < len(recs[c])+1; i++ {
							rec, err := ch.Recv()
							got = append(got, string(rec)+"/"+errStr(err))
						}
						vs.Yield("note")
						vs.Note("got", c, strings.Join(got, " "))
					})
				}
				k.Wait()
			}
			check := func(x *vs.Exec) []Viol {
				v := genericRules(x, nil)
				Hit("C11.R1")
				for _, e := range x.Log {
					switch e.K {
					case "send-error":
						v = append(v, Viol{"C11.R1", fs.Name + " connection " + e.Arg(0) + ": Send failed: " + e.Arg(1)})
					case "got":
						want := strings.Join(recs[e.Arg(0)], "/<nil> ") + "/<nil> /EOF"
						if e.Arg(1) != want {
							v = append(v, Viol{"C11.R1", fmt.Sprintf("%s connection %s delivered %q, want %q (another channel made by the same framing value was in use at the same time)", fs.Name, e.Arg(0), e.Arg(1), want)})
						}
					}
				}
				return v
			}
			return &Instance{Body: body, Check: check}
		},
	}
}

// c11Duplex: ONE channel is used by its one sender and its one receiver at the same time, which is what
// the Channel contract allows and what a Server or a Client does. The two directions must not share
// anything: the records that arrive are the ones the peer sent, and the bytes written are the frames of
// the records given to Send, whatever the other direction is doing - for small records and for records
// beyond the sizes at which an implementation changes strategy (2^20, 2^24).
func c11Duplex(fs framingSpec, big int, b Bounds) *Scenario {
	mk := func(tag byte, n int) []byte {
		r := bytes.Repeat([]byte{tag}, n)
		if fs.Kind == "rawjson" || n > 1 {
			r[0], r[n-1] = '"', '"'
		}
		return r
	}
	incoming := [][]byte{mk('i', 40), mk('j', big), mk('k', 24)}
	outgoing := [][]byte{mk('o', 30), mk('p', 70), mk('q', 20)}
	return &Scenario{
		Name:   fmt.Sprintf("%s: one channel, Send and Recv at the same time, an incoming record of %d bytes", fs.Name, big),
		Params: map[string]any{"framing": fs.Name, "incoming_sizes": []int{40, big, 24}, "outgoing_sizes": []int{30, 70, 20}},
		Bounds: b,
		New: func() *Instance {
			body := func() {
				enc := &bufWC{}
				pre := fs.F(bytes.NewReader(nil), enc)
				for _, r := range incoming {
					pre.Send(r)
				}
				w := &yieldWC{}
				ch := fs.F(&yieldR{data: append([]byte{}, enc.Bytes()...)}, w)
				var j Join
				j.Go("send", func() {
					for _, r := range outgoing {
						if err := ch.Send(r); err != nil {
							vs.Yield("note")
							vs.Note("send-error", err.Error())
						}
					}
				})
				j.Go("recv", func() {
					for i := 0; i <= len(incoming); i++ {
						rec, err := ch.Recv()
						ok := i < len(incoming) && err == nil && bytes.Equal(rec, incoming[i]) || i == len(incoming) && err == io.EOF
						vs.Yield("note")
						vs.Note("recv", fmt.Sprint(i), fmt.Sprint(ok), fmt.Sprint(len(rec)), errStr(err))
					}
				})
				j.Wait()
				// what was written must be exactly the frames of the outgoing records
				var got []string
				rd := fs.F(bytes.NewReader(w.buf), &bufWC{})
				for i := 0; i <= len(outgoing); i++ {
					rec, err := rd.Recv()
					got = append(got, string(rec)+"/"+errStr(err))
				}
				vs.Note("written", strings.Join(got, " "))
			}
			check := func(x *vs.Exec) []Viol {
				v := genericRules(x, nil)
				Hit("C11.R1")
				for _, e := range x.Log {
					switch e.K {
					case "send-error":
						v = append(v, Viol{"C11.R1", fs.Name + ": Send failed while the receiver was active: " + e.Arg(0)})
					case "recv":
						if e.Arg(1) != "true" {
							v = append(v, Viol{"C11.R1", fmt.Sprintf("%s: Recv %s returned %s bytes, error %s while the sender of the same channel was active; want the record the peer sent (the last Recv: io.EOF)", fs.Name, e.Arg(0), e.Arg(2), e.Arg(3))})
						}
					case "written":
						var want []string
						for _, r := range outgoing {
							want = append(want, string(r)+"/<nil>")
						}
						if w := strings.Join(want, " ") + " /EOF"; e.Arg(0) != w {
							v = append(v, Viol{"C11.R1", fmt.Sprintf("%s: the bytes written while the receiver was active decode to %.200q, want %.200q", fs.Name, e.Arg(0), w)})
						}
					}
				}
				return v
			}
			return &Instance{Body: body, Check: check}
		},
	}
}

func c11Scenarios(tier string) []*Scenario {
	var out []*Scenario
	q := tier == "quick"
	for _, fs := range framings() {
		out = append(out, c11TwoChannels(fs))
	}
	for _, fs := range framings() {
		out = append(out, c11Duplex(fs, 300, Bounds{2, -1, 0}))
		if fs.Kind == "header" {
			if q {
				out = append(out, c11Duplex(fs, 1<<24+5, Bounds{1, 1, 0}))
			} else {
				out = append(out, c11Duplex(fs, 1<<24+5, Bounds{2, -1, 0}), c11Duplex(fs, 1<<20+5, Bounds{2, -1, 0}))
			}
		}
	}
	for _, fs := range framings() {
		ml := 3
		if q {
			ml = 2
		}
		out = append(out, c11RoundTrip(fs, ml, q))
	}
	small := []int{0, 1, 4095, 4096, 4097, 65536}
	big := []int{0, 1, 4097, 1 << 20, 1<<20 + 1, 3 << 20}
	for _, fs := range []framingSpec{framingByName("Line"), framingByName(`Header("")`), framingByName(`StrictHeader("a/b")`), framingByName("LSP"), framingByName("RawJSON")} {
		if q {
			out = append(out, c11Sizes(fs, small, 2))
			if fs.Kind == "header" {
				out = append(out, c11Sizes(fs, big, 2))
			}
		} else {
			out = append(out, c11Sizes(fs, small, 3))
			out = append(out, c11Sizes(fs, big, 3))
		}
	}
	// records around the 16 MiB mark, above which the header framings read the payload incrementally
	huge := []int{1 << 24, 1<<24 + 1, 5}
	for _, n := range []string{`Header("")`, "LSP", `StrictHeader("a/b")`} {
		if q && n != "LSP" {
			continue
		}
		out = append(out, c11Sizes(framingByName(n), huge, 2))
	}
	for _, fs := range framings() {
		out = append(out, c11Bytes(fs))
	}
	out = append(out, c11SplitGuard(), c11DirectSeq())
	if q {
		out = append(out, c11Direct(Bounds{3, -1, 0}))
	} else {
		out = append(out, c11Direct(Bounds{-1, -1, -1}))
	}
	return out
}

// ---------------------------------------------------------------------------
// C12 reference decoders (three-valued)

type refVerdict int

const (
	mustYield refVerdict = iota // the documented format yields exactly this record next
	mustFail                    // the documented format cannot yield a record here
	unspec                      // the documentation is silent: anything that neither panics nor fabricates bytes
)

type refResult struct {
	V        refVerdict
	Rec      []byte
	WantErr  bool // mustYield together with a non-nil error (content-type mismatch)
	ErrMaybe bool // mustYield; whether an error accompanies the record is not specified (empty Content-Type value on a lenient framing)
	Consumed int  // bytes of the stream consumed (mustYield only)
	Tail     []byte
}

// refSplit: records are the delimiter-terminated runs; an unterminated tail is an error whose
// payload, if any, is the whole tail.
func refSplit(stream []byte, sp byte) refResult {
	if i := bytes.IndexByte(stream, sp); i >= 0 {
		return refResult{V: mustYield, Rec: stream[:i], Consumed: i + 1}
	}
	return refResult{V: mustFail, Tail: stream}
}

func isDigits(s string) bool {
	if s == "" {
		return false
	}
	for i := 0; i < len(s); i++ {
		if s[i] < '0' || s[i] > '9' {
			return false
		}
	}
	return true
}

// refHeader parses one header/body transaction strictly as documented.
func refHeader(stream []byte, mtype string, strict bool) refResult {
	pos := 0
	clen, ctype := "", ""
	nCL, nCT := 0, 0
	sawAny := false
	for {
		nl := bytes.IndexByte(stream[pos:], '\n')
		if nl < 0 {
			if pos == len(stream) && !sawAny {
				return refResult{V: mustFail} // clean end of stream
			}
			// partial header line at end of stream: the header block can never be completed, so no record
			// may be produced from it (a record cut off by the end of the stream is an error). The one
			// exception left open is a tail made of CR bytes only (CR LF CR <EOF>, CR LF CR CR <EOF>):
			// like a CR inside a line below, the documentation does not say what a bare CR is.
			if tail := stream[pos:]; len(tail) > 0 && len(bytes.Trim(tail, "\r")) == 0 {
				return refResult{V: unspec}
			}
			return refResult{V: mustFail}
		}
		line := stream[pos : pos+nl]
		pos += nl + 1
		sawAny = true
		if len(line) == 0 || line[len(line)-1] != '\r' {
			return refResult{V: unspec} // bare LF line terminator: the documentation only shows CRLF
		}
		line = line[:len(line)-1]
		if bytes.IndexByte(line, '\r') >= 0 {
			return refResult{V: unspec}
		}
		if len(line) == 0 {
			break
		}
		colon := bytes.IndexByte(line, ':')
		if colon < 0 {
			return refResult{V: unspec} // a header line without a colon
		}
		name := strings.ToLower(string(line[:colon]))
		val := string(line[colon+1:])
		if name != strings.TrimSpace(name) {
			return refResult{V: unspec} // white space around the field name
		}
		tv := strings.TrimSpace(val)
		switch name {
		case "content-length":
			clen = tv
			nCL++
		case "content-type":
			ctype = tv
			nCT++
		}
	}
	if nCL > 1 || nCT > 1 {
		return refResult{V: unspec} // repeated field: either occurrence
	}
	if nCL == 0 {
		return refResult{V: mustFail} // Content-Length is required
	}
	if !isDigits(clen) {
		if strings.HasPrefix(clen, "-") && isDigits(clen[1:]) {
			if clen == "-0" {
				return refResult{V: unspec}
			}
			return refResult{V: mustFail} // negative
		}
		if strings.HasPrefix(clen, "+") && isDigits(clen[1:]) {
			return refResult{V: unspec} // explicit plus sign
		}
		if clen == "" {
			return refResult{V: mustFail}
		}
		return refResult{V: mustFail} // not a decimal number
	}
	n, err := strconv.ParseUint(clen, 10, 63)
	rest := stream[pos:]
	if err != nil || n > uint64(len(rest)) {
		return refResult{V: mustFail} // body shorter than announced (or absurd length): an error, never a crash
	}
	res := refResult{V: mustYield, Rec: rest[:n], Consumed: pos + int(n)}
	if nCT == 0 {
		if strict && mtype != "" {
			res.WantErr = true
		}
	} else if ctype != mtype {
		res.WantErr = true
		if ctype == "" && !strict {
			// a Content-Type field with an empty value: "set but does not match" or "omitted"? not specified
			res.WantErr, res.ErrMaybe = false, true
		}
	}
	return res
}

// refRawJSON finds the next complete JSON value.
func refRawJSON(stream []byte) refResult {
	i := 0
	for i < len(stream) && (stream[i] == ' ' || stream[i] == '\n' || stream[i] == '\t' || stream[i] == '\r') {
		i++
	}
	if i == len(stream) {
		return refResult{V: mustFail}
	}
	start := i
	switch c := stream[i]; {
	case c == '{' || c == '[':
		depth := 0
		inStr := false
		for ; i < len(stream); i++ {
			ch := stream[i]
			if inStr {
				if ch == '\\' {
					i++
				} else if ch == '"' {
					inStr = false
				}
				continue
			}
			switch ch {
			case '"':
				inStr = true
			case '{', '[':
				depth++
			case '}', ']':
				depth--
				if depth == 0 {
					cand := stream[start : i+1]
					if json.Valid(cand) {
						return refResult{V: mustYield, Rec: cand, Consumed: i + 1}
					}
					return refResult{V: mustFail}
				}
			}
		}
		return refResult{V: mustFail} // incomplete at end of stream
	case c == '"':
		for i++; i < len(stream); i++ {
			if stream[i] == '\\' {
				i++
			} else if stream[i] == '"' {
				cand := stream[start : i+1]
				if json.Valid(cand) {
					return refResult{V: mustYield, Rec: cand, Consumed: i + 1}
				}
				return refResult{V: mustFail}
			}
		}
		return refResult{V: mustFail}
	default:
		for i < len(stream) && !strings.ContainsRune(" \n\t\r,:]}[{\"", rune(stream[i])) {
			i++
		}
		cand := stream[start:i]
		if len(cand) > 0 && json.Valid(cand) {
			if i == len(stream) {
				// a bare number at end of stream might be a prefix of a longer one: decoders may yield or fail
				return refResult{V: unspec}
			}
			return refResult{V: mustYield, Rec: cand, Consumed: i}
		}
		if len(cand) == 0 || strings.ContainsRune("0123456789-tfn", rune(cand[0])) {
			// a run such as "1n": where a scalar ends when no delimiter follows is not documented
			return refResult{V: unspec}
		}
		return refResult{V: mustFail}
	}
}

func (fs framingSpec) ref(stream []byte) refResult {
	switch fs.Kind {
	case "split":
		return refSplit(stream, fs.Split)
	case "header":
		return refHeader(stream, fs.MType, fs.Strict)
	}
	return refRawJSON(stream)
}

// announce tells the driver which input is about to run (a Go fatal error cannot be recovered in-process).
func announce(s string) { fmt.Fprintf(os.Stderr, "ANNOUNCE %s\n", s) }

// c12Judge runs Recv repeatedly over stream (with the given fragmentation) and compares with the reference.
func c12Judge(r *SeqRun, fs framingSpec, stream []byte, cuts []int, eof, oneByte bool, dangerous bool) string {
	if dangerous {
		announce(fmt.Sprintf("%s stream=%s", fs.Name, abbrevQ(stream)))
	}
	input := func() string {
		return fmt.Sprintf("%s stream=%s cuts=%v eofWithLast=%v oneByte=%v", fs.Name, abbrevQ(stream), abbrevCuts(cuts), eof, oneByte)
	}
	rd := &cutReader{data: stream, cuts: cuts, eofWithLast: eof, oneByte: oneByte}
	ch := fs.F(rd, &bufWC{})
	rest := stream
	specified := true
	fails := 0
	class := ""
	p := guarded(func() {
		for calls := 0; ; calls++ {
			if calls > len(stream)+8 {
				r.Fail("C12.R4", input(), "Recv keeps yielding records beyond the end of the stream", "")
				return
			}
			b, err := ch.Recv()
			r.Calls(1)
			b = append([]byte(nil), b...)
			if err != nil {
				fails++
			} else {
				fails = 0
			}
			// R3: never fabricate: a returned payload is a contiguous slice of the stream
			if len(b) > 0 && !bytes.Contains(stream, b) {
				r.Fail("C12.R3", input(), fmt.Sprintf("Recv returned %s, which is not a contiguous slice of the stream", abbrevQ(b)), "")
				return
			}
			if specified {
				ref := fs.ref(rest)
				switch ref.V {
				case mustYield:
					class += "Y"
					if ref.ErrMaybe {
						if len(b) > 0 || err == nil {
							if !bytes.Equal(b, ref.Rec) {
								r.Fail("C12.R2", input(), fmt.Sprintf("the documented format yields record %s here, Recv returned %s (err=%v)", abbrevQ(ref.Rec), abbrevQ(b), err), "")
								return
							}
						}
						rest = rest[ref.Consumed:]
						if err != nil {
							specified = false
						}
						continue
					}
					if err == nil && ref.WantErr {
						r.Fail("C12.R2", input(), fmt.Sprintf("content type does not match %q but Recv reported no error", fs.MType), "")
						return
					}
					if err != nil && !ref.WantErr {
						r.Fail("C12.R2", input(), fmt.Sprintf("the documented format yields record %s here, Recv failed with %v", abbrevQ(ref.Rec), err), "")
						return
					}
					if (err == nil || b != nil) && !bytes.Equal(b, ref.Rec) && !(fs.Kind == "rawjson" && string(ref.Rec) == "null" && len(b) == 0) {
						r.Fail("C12.R2", input(), fmt.Sprintf("the documented format yields record %s here, Recv returned %s (err=%v)", abbrevQ(ref.Rec), abbrevQ(b), err), "")
						return
					}
					rest = rest[ref.Consumed:]
					if err != nil {
						specified = false // what follows an error is not specified
					}
				case mustFail:
					class += "F"
					if err == nil {
						r.Fail("C12.R2", input(), fmt.Sprintf("no record can be framed from %s, but Recv returned %s without error", abbrevQ(rest), abbrevQ(b)), "")
						return
					}
					if fs.Kind == "split" && len(b) > 0 && !bytes.Equal(b, ref.Tail) {
						r.Fail("C12.R2", input(), fmt.Sprintf("final record %s cut off by end of stream was shortened to %s", abbrevQ(ref.Tail), abbrevQ(b)), "")
						return
					}
					specified = false
				default:
					class += "U"
					specified = false
				}
			}
			if fails >= 3 {
				return
			}
		}
	})
	if p != "" {
		r.Fail("G1", input(), "panic in Recv: "+p, "")
		class += "P"
	}
	return class
}

// abbrevQ quotes b for a message; long values (the multi-megabyte bodies) are shown as head, length and tail:
// the scenarios that use them build them deterministically, so nothing is lost for reproducing a report.
func abbrevQ(b []byte) string {
	if len(b) <= 600 {
		return fmt.Sprintf("%q", b)
	}
	return fmt.Sprintf("%q...(%d bytes in all)...%q", b[:240], len(b), b[len(b)-120:])
}

func abbrevCuts(c []int) string {
	if len(c) <= 40 {
		return fmt.Sprint(c)
	}
	return fmt.Sprintf("%v...(%d cuts in all)", c[:40], len(c))
}

func c12Split(fs framingSpec, maxLen int) *Scenario {
	return &Scenario{
		Name:   fmt.Sprintf("streams %s: every byte string of length<=%d over {a,b,split,CR}", fs.Name, maxLen),
		Params: map[string]any{"framing": fs.Name, "alphabet": "a b <split> \\r", "max_length": maxLen, "fragmentation": "every cut set of <=1 cut, EOF with/without the last chunk, one-byte reads"},
		Seq: func(r *SeqRun) {
			alpha := []byte{'a', 'b', fs.Split, '\r'}
			var rec func(cur []byte)
			rec = func(cur []byte) {
				if r.Expired() {
					return
				}
				forCutSets(len(cur), 1, func(cuts []int, eof, one bool) bool {
					cl := c12Judge(r, fs, cur, cuts, eof, one, false)
					r.Case(fs.Name+"/"+cl, strings.ContainsAny(cl, "FU"))
					return true
				})
				if len(cur) < maxLen {
					for _, c := range alpha {
						rec(append(append([]byte(nil), cur...), c))
					}
				}
			}
			rec(nil)
			r.Sample(map[string]any{"framing": fs.Name, "stream": "ab" + string(fs.Split) + "a", "cuts": []int{2}})
		},
	}
}

var hdrTokens = []string{"Content-Length: ", "content-LENGTH:", "Content-Type: ", "X-Other: q\r\n", ":", " ", "0", "2", "-1", "+2", "2x",
	"1099511627776", "9223372036854775807", "4611686018427387904", "99999999999999999999", "a/b", "c/d", "\r\n", "\n", "xy", "\r\n\r\n", "010", "09", "0x4", "1_0", "\t", "\r"}

func c12Header(fs framingSpec, first string, maxLen int) *Scenario {
	return &Scenario{
		Name:       fmt.Sprintf("streams %s: token strings of length<=%d starting with %q", fs.Name, maxLen, first),
		Params:     map[string]any{"framing": fs.Name, "tokens": hdrTokens, "max_tokens": maxLen, "suffixes": []string{"", "xy", "xyz", "0123456789ab"}, "first_token": first},
		MemLimitMB: 16384,
		Seq: func(r *SeqRun) {
			var rec func(cur []string)
			rec = func(cur []string) {
				if r.Expired() {
					return
				}
				base := strings.Join(cur, "")
				dangerous := false
				for _, t := range cur {
					if len(t) >= 13 && t[0] >= '0' && t[0] <= '9' {
						dangerous = true
					}
				}
				for _, suf := range []string{"", "xy", "xyz", "0123456789ab"} {
					stream := []byte(base + suf)
					for _, eof := range []bool{false, true} {
						cl := c12Judge(r, fs, stream, nil, eof, false, dangerous)
						r.Case(fs.Name+"/"+cl, strings.ContainsAny(cl, "FU"))
					}
					if len(cur) <= 3 {
						forCutSets(len(stream), 1, func(cuts []int, eof, one bool) bool {
							if len(cuts) == 0 && !one {
								return true
							}
							cl := c12Judge(r, fs, stream, cuts, eof, one, dangerous)
							r.Case(fs.Name+"/"+cl, strings.ContainsAny(cl, "FU"))
							return true
						})
					}
				}
				if len(cur) < maxLen {
					for _, t := range hdrTokens {
						rec(append(append([]string(nil), cur...), t))
					}
				}
			}
			rec([]string{first})
			r.Sample(map[string]any{"framing": fs.Name, "stream": "Content-Length: 2\r\n\r\nxy"})
		},
	}
}

// c12HeaderValid: well-formed multi-message streams with every truncation point and every
// single-token substitution, so that the deep (valid) part of the space is covered too.
func c12HeaderValid(fs framingSpec) *Scenario {
	return &Scenario{
		Name:       fmt.Sprintf("streams %s: valid transactions, every truncation and single-byte substitution", fs.Name),
		Params:     map[string]any{"framing": fs.Name},
		MemLimitMB: 16384,
		Seq: func(r *SeqRun) {
			ct := ""
			if fs.MType != "" {
				ct = "Content-Type: " + fs.MType + "\r\n"
			}
			bases := []string{
				ct + "Content-Length: 2\r\n\r\nxy",
				ct + "Content-Length: 2\r\n\r\nxy" + ct + "Content-Length: 0\r\n\r\n" + "Content-Length: 1\r\n\r\nz",
				"content-length: 3\r\nX-Other: q\r\n" + strings.ToLower(ct) + "\r\nabc",
				"Content-Type: c/d\r\nContent-Length: 2\r\n\r\nxy",
				"CONTENT-LENGTH:2\r\n\r\nxyContent-Length: 1\r\n\r\nw",
			}
			subs := []byte{'x', ':', ' ', '\r', '\n', '0', '9', '-'}
			for _, b := range bases {
				stream := []byte(b)
				for t := 0; t <= len(stream); t++ {
					for _, eof := range []bool{false, true} {
						cl := c12Judge(r, fs, stream[:t], nil, eof, false, false)
						r.Case(fs.Name+"/trunc/"+cl, true)
					}
				}
				forCutSets(len(stream), 2, func(cuts []int, eof, one bool) bool {
					cl := c12Judge(r, fs, stream, cuts, eof, one, false)
					r.Case(fs.Name+"/cuts/"+cl, true)
					return !r.Expired()
				})
				for i := range stream {
					for _, s := range subs {
						if stream[i] == s {
							continue
						}
						m := append([]byte(nil), stream...)
						m[i] = s
						cl := c12Judge(r, fs, m, nil, true, false, true)
						r.Case(fs.Name+"/subst/"+cl, true)
					}
				}
			}
			r.Sample(map[string]any{"framing": fs.Name, "stream": bases[1], "mutation": "truncate at every position; substitute every byte by each of x : SP CR LF 0 9 -"})
		},
	}
}

func c12RawJSON(maxLen int) *Scenario {
	fs := framingByName("RawJSON")
	return &Scenario{
		Name:   fmt.Sprintf("streams RawJSON: every string of length<=%d over {}[]\",:1n SP", maxLen),
		Params: map[string]any{"framing": "RawJSON", "max_length": maxLen},
		Seq: func(r *SeqRun) {
			alpha := []byte(`{}[]",:1n `)
			var rec func(cur []byte)
			rec = func(cur []byte) {
				if r.Expired() {
					return
				}
				for _, eof := range []bool{false, true} {
					cl := c12Judge(r, fs, cur, nil, eof, false, false)
					r.Case("RawJSON/"+cl, strings.ContainsAny(cl, "FU"))
				}
				if len(cur) <= 4 {
					forCutSets(len(cur), 1, func(cuts []int, eof, one bool) bool {
						if len(cuts) == 0 && !one {
							return true
						}
						cl := c12Judge(r, fs, cur, cuts, eof, one, false)
						r.Case("RawJSON/"+cl, strings.ContainsAny(cl, "FU"))
						return true
					})
				}
				if len(cur) < maxLen {
					for _, c := range alpha {
						rec(append(append([]byte(nil), cur...), c))
					}
				}
			}
			rec(nil)
			r.Sample(map[string]any{"framing": "RawJSON", "stream": `{"1":[1]} 1n`})
		},
	}
}

// c12LongLines: header lines and payloads whose length crosses the internal read-buffer sizes
// (every length in a window around 4096 and 8192, plus 65536+-1): the format has no line-length
// limit, so a long unknown field must be ignored like a short one.
func c12LongLines(fs framingSpec, quick bool) *Scenario {
	return &Scenario{
		Name:       fmt.Sprintf("streams %s: header lines and bodies across buffer-size boundaries", fs.Name),
		Params:     map[string]any{"framing": fs.Name, "line_lengths": "every total line length in [4070,4120] and [8170,8215], and 65535..65537", "positions": "long unknown field before / after Content-Length, long Content-Type parameter (lenient framings)", "fill": "'a' and a cyclic pattern containing ':' and header-like text"},
		MemLimitMB: 16384,
		Seq: func(r *SeqRun) {
			ct := ""
			if fs.MType != "" {
				ct = "Content-Type: " + fs.MType + "\r\n"
			}
			var lens []int
			for l := 4070; l <= 4120; l++ {
				lens = append(lens, l)
			}
			for l := 8170; l <= 8215; l++ {
				lens = append(lens, l)
			}
			lens = append(lens, 65535, 65536, 65537)
			fill := func(n int, cyc bool) string {
				if !cyc {
					return strings.Repeat("a", n)
				}
				pat := "Content-Length: 1 ;"
				return strings.Repeat(pat, n/len(pat)+1)[:n]
			}
			for _, total := range lens {
				for _, cyc := range []bool{false, true} {
					n := total - len("X-Pad: \r\n")
					long := "X-Pad: " + fill(n, cyc) + "\r\n"
					streams := []string{
						ct + long + "Content-Length: 5\r\n\r\nhello" + ct + "Content-Length: 3\r\n\r\nabc",
						ct + "Content-Length: 5\r\n" + long + "\r\nhello" + ct + "Content-Length: 3\r\n\r\nabc",
						long + ct + "Content-Length: 5\r\n\r\nhello",
					}
					for _, st := range streams {
						stream := []byte(st)
						for _, mode := range []struct {
							cuts []int
							one  bool
						}{{nil, false}, {[]int{4096}, false}, {[]int{total}, false}} {
							cl := c12Judge(r, fs, stream, mode.cuts, true, mode.one, false)
							r.Case(fs.Name+"/long/"+cl, true)
						}
						if r.Expired() {
							return
						}
					}
				}
				// body of that size after a short header, followed by a second message
				body := fill(total, false)
				stream := []byte(ct + fmt.Sprintf("Content-Length: %d\r\n\r\n", total) + body + ct + "Content-Length: 1\r\n\r\nz")
				cl := c12Judge(r, fs, stream, nil, true, false, false)
				r.Case(fs.Name+"/longbody/"+cl, true)
			}
			// bodies around 16 MiB (above which the payload is read incrementally): with the right, a wrong
			// and no Content-Type, complete and cut off by the end of the stream
			for _, size := range []int{1<<24 + 1, 1 << 24} {
				body := fill(size, true)
				for _, typ := range []string{ct, "Content-Type: c/d\r\n", ""} {
					whole := typ + fmt.Sprintf("Content-Length: %d\r\n\r\n", size) + body
					for _, stream := range []string{whole + ct + "Content-Length: 1\r\n\r\nz", whole[:len(whole)-3], whole[:len(whole)/2]} {
						cl := c12Judge(r, fs, []byte(stream), nil, true, false, false)
						r.Case(fs.Name+"/hugebody/"+cl, true)
					}
				}
				if quick {
					break
				}
			}
			r.Sample(map[string]any{"framing": fs.Name, "stream": "X-Pad: a...a (line of 4097 bytes)\r\nContent-Length: 5\r\n\r\nhello"})
		},
	}
}

// c12Stale: what Recv yields after a rejected header block must not depend on the FIELDS of that
// block. Streams E+T and E'+T, where E and E' are rejected at the same (colon-less) line but carry
// different Content-Length / Content-Type fields before it, must continue identically on T.
func c12Stale(fs framingSpec) *Scenario {
	return &Scenario{
		Name:       fmt.Sprintf("streams %s: a rejected header block leaves nothing behind for the next Recv", fs.Name),
		Params:     map[string]any{"framing": fs.Name, "rejected_blocks": "fields (none / Content-Length / Content-Type / both) followed by a line without colon", "tails": 12},
		MemLimitMB: 4096,
		Seq: func(r *SeqRun) {
			fields := []string{"", "Content-Length: 3\r\n", "Content-Type: a/b\r\n", "Content-Type: c/d\r\n", "Content-Length: 3\r\nContent-Type: " + fs.MType + "\r\n", "content-length: 1\r\n", "Content-Length: 3\n"}
			bads := []string{"bogus\r\n", "bogus\n", "no colon here\r\n"}
			ct := ""
			if fs.MType != "" {
				ct = "Content-Type: " + fs.MType + "\r\n"
			}
			tails := []string{"\r\nabc", "\r\n", "\n\nabc", "X-Other: q\r\n\r\nabc", "Content-Type: a/b\r\n\r\nabc", ct + "\r\nabc", "Content-Length: 1\r\n\r\nabc", ct + "Content-Length: 2\r\n\r\nabcd",
				"Content-Length: 0\r\n\r\n" + ct + "\r\nabc", "abc", "", "Content-Length: x\r\n\r\nabc"}
			run := func(stream string) string {
				ch := fs.F(&cutReader{data: []byte(stream)}, &bufWC{})
				var sb strings.Builder
				p := guarded(func() {
					for i := 0; i < 6; i++ {
						b, err := ch.Recv()
						r.Calls(1)
						if i == 0 {
							if err == nil {
								sb.WriteString("first-accepted;")
							}
							continue // the rejected block itself
						}
						fmt.Fprintf(&sb, "%q/%v;", b, err == nil)
					}
				})
				if p != "" {
					sb.WriteString("panic:" + p)
				}
				return sb.String()
			}
			for _, bad := range bads {
				for _, tl := range tails {
					base := run(bad + tl)
					for _, f := range fields[1:] {
						got := run(f + bad + tl)
						r.Case(fs.Name+"/stale", true)
						Hit("C12.R5")
						if got != base {
							r.Fail("C12.R5", fmt.Sprintf("%s stream=%q", fs.Name, f+bad+tl), fmt.Sprintf("after the rejected block the Recv calls yield %s; with the same block without its fields (%q) they yield %s: fields of a rejected header block leak into the next record", got, bad+tl, base), "")
						}
					}
				}
			}
			r.Sample(map[string]any{"framing": fs.Name, "stream": "Content-Length: 3\r\nbogus\r\n\r\nabc", "compared_with": "bogus\r\n\r\nabc"})
		},
	}
}

func c12Scenarios(tier string) []*Scenario {
	var out []*Scenario
	q := tier == "quick"
	fss := framings()
	if q {
		out = append(out, c12Split(fss[0], 7), c12Split(fss[1], 7), c12Split(framingByName("Split(0xff)"), 6))
	} else {
		out = append(out, c12Split(fss[0], 9), c12Split(fss[1], 9), c12Split(framingByName("Split(0xff)"), 8))
	}
	for _, fs := range fss[2:6] {
		out = append(out, c12HeaderValid(fs), c12LongLines(fs, q), c12Stale(fs))
		for _, first := range hdrTokens {
			ml := 4
			if !q {
				ml = 5
			}
			if q && fs.Name != `Header("a/b")` && first != "Content-Length: " && first != "content-LENGTH:" && first != "Content-Type: " {
				ml = 3
			}
			out = append(out, c12Header(fs, first, ml))
		}
	}
	if q {
		out = append(out, c12RawJSON(5))
	} else {
		out = append(out, c12RawJSON(6))
	}
	return out
}

var _ = errors.New
