package main

import (
	"bytes"
	"context"
	"encoding/json"
	"errors"
	"fmt"
	"io"
	"net"
	"reflect"
	"regexp"
	"sort"
	"strconv"
	"strings"

	"github.com/creachadair/jrpc2"
	"verif/vs"
)

// ---------------------------------------------------------------------------
// Pipe: a scheduler-native channel.Channel pair.

// PipeOpts configure the library-side end of a Pipe.
type PipeOpts struct {
	Name              string // name of the library side in events ("srv", "cli")
	CloseUnblocksRecv bool   // socket-like: the library's own Close makes its pending Recv fail; otherwise only the peer's close ends Recv (stdin / channel.Direct-like)
	Monitor           bool   // extra scheduling point inside Send/Recv/Close so that overlapping calls are observable
	Faults            bool   // every library-side operation is an environment choice point that may fail
	Quiet             bool   // do not log out/taken events
}

type pq struct {
	q      [][]byte
	closed bool
}

// Pipe is the pair of ends.
type Pipe struct {
	opts PipeOpts
	c2s  pq // peer -> library
	s2c  pq // library -> peer

	libClosed  bool
	CloseCount int
	sendActive int
	recvActive int
	closing    int
	NSend      int
	Delivered  int // records that actually reached the peer's queue
	NRecv      int
	Taken      int
	Out        [][]byte // every record the library passed to Send (successfully or not), in order
	Overlaps   []string
	FaultsDone []string
	BlockSend  bool  // back-pressure: while set, the library's Send does not complete (set and cleared by the harness)
	FailRecv   error // set by an environment thread: the pending / next library Recv fails with it (once)
	FailSend   error // the next library Send fails with it (once)
}

var errFault = errors.New("injected channel fault")

// errCause is the cause the harness gives whenever it ends a context. A context ended with a cause
// still reports context.Canceled / context.DeadlineExceeded from Err, which is what every property
// speaks about; code that looks at context.Cause instead must not let the cause leak into results.
var errCause = errors.New("operator pressed stop")

func cancelCauseCtx() (context.Context, context.CancelFunc) {
	ctx, cc := context.WithCancelCause(context.Background())
	return ctx, func() { cc(errCause) }
}

// LibEnd is the channel.Channel handed to the Server or Client under test.
type LibEnd struct{ p *Pipe }

// PeerEnd is the harness side.
type PeerEnd struct{ p *Pipe }

func NewPipe(o PipeOpts) (*LibEnd, *PeerEnd, *Pipe) {
	if o.Name == "" {
		o.Name = "lib"
	}
	p := &Pipe{opts: o}
	return &LibEnd{p}, &PeerEnd{p}, p
}

func (p *Pipe) overlap(kind string) {
	p.Overlaps = append(p.Overlaps, kind)
	vs.Note("overlap", p.opts.Name, kind)
}

func (e *LibEnd) Send(b []byte) error {
	p := e.p
	if !vs.Controlled() {
		return errors.New("pipe: used outside an execution")
	}
	if p.sendActive > 0 {
		p.overlap("send/send")
	}
	if p.closing > 0 {
		p.overlap("send/close")
	}
	p.sendActive++
	vs.Yield("pipe send (" + p.opts.Name + ")")
	if p.BlockSend {
		vs.Await(func() bool { return !p.BlockSend }, "pipe send blocked by back-pressure ("+p.opts.Name+")")
	}
	if p.opts.Monitor {
		vs.Yield("pipe send.2 (" + p.opts.Name + ")")
	}
	p.sendActive--
	p.NSend++
	cp := append([]byte(nil), b...)
	p.Out = append(p.Out, cp)
	if !p.opts.Quiet {
		vs.Note("out", p.opts.Name, normalizeVolatile(string(cp)))
	}
	if p.opts.Faults && vs.Choose(2, "fault:send") == 1 {
		p.FaultsDone = append(p.FaultsDone, fmt.Sprintf("send#%d", p.NSend))
		vs.Note("fault", p.opts.Name, "send", strconv.Itoa(p.NSend))
		return errFault
	}
	if p.FailSend != nil {
		err := p.FailSend
		p.FailSend = nil
		vs.Note("fault", p.opts.Name, "send", strconv.Itoa(p.NSend))
		return err
	}
	if p.libClosed {
		return errors.New("pipe: send on closed channel")
	}
	if p.c2s.closed {
		return io.ErrClosedPipe
	}
	p.s2c.q = append(p.s2c.q, cp)
	p.Delivered++
	return nil
}

func (e *LibEnd) Recv() ([]byte, error) {
	p := e.p
	if !vs.Controlled() {
		return nil, errors.New("pipe: used outside an execution")
	}
	if p.recvActive > 0 {
		p.overlap("recv/recv")
	}
	p.recvActive++
	vs.Await(func() bool {
		return len(p.c2s.q) > 0 || p.c2s.closed || (p.libClosed && p.opts.CloseUnblocksRecv) || p.FailRecv != nil
	}, "pipe recv ("+p.opts.Name+")")
	if p.opts.Monitor {
		vs.Yield("pipe recv.2 (" + p.opts.Name + ")")
	}
	p.recvActive--
	p.NRecv++
	if p.libClosed && p.opts.CloseUnblocksRecv {
		return nil, fmt.Errorf("read pipe: %w", net.ErrClosed)
	}
	if p.FailRecv != nil {
		err := p.FailRecv
		p.FailRecv = nil
		vs.Note("fault", p.opts.Name, "recv-error", strconv.Itoa(p.NRecv))
		return nil, err
	}
	if p.opts.Faults {
		n := 2
		if len(p.c2s.q) > 0 {
			n = 4
		}
		switch vs.Choose(n, "fault:recv") {
		case 1:
			p.FaultsDone = append(p.FaultsDone, fmt.Sprintf("recv#%d:error", p.NRecv))
			vs.Note("fault", p.opts.Name, "recv-error", strconv.Itoa(p.NRecv))
			return nil, errFault
		case 2:
			b := p.c2s.q[0]
			p.c2s.q = p.c2s.q[1:]
			p.Taken++
			p.FaultsDone = append(p.FaultsDone, fmt.Sprintf("recv#%d:data+EOF", p.NRecv))
			vs.Note("fault", p.opts.Name, "recv-data+EOF", strconv.Itoa(p.NRecv))
			vs.Note("taken", p.opts.Name, strconv.Itoa(p.Taken), string(b))
			return b, io.EOF
		case 3:
			b := p.c2s.q[0]
			p.c2s.q = p.c2s.q[1:]
			p.Taken++
			p.FaultsDone = append(p.FaultsDone, fmt.Sprintf("recv#%d:data+error", p.NRecv))
			vs.Note("fault", p.opts.Name, "recv-data+error", strconv.Itoa(p.NRecv))
			vs.Note("taken", p.opts.Name, strconv.Itoa(p.Taken), string(b))
			return b, errFault
		}
	}
	if len(p.c2s.q) > 0 {
		b := p.c2s.q[0]
		p.c2s.q = p.c2s.q[1:]
		p.Taken++
		if !p.opts.Quiet {
			vs.Note("taken", p.opts.Name, strconv.Itoa(p.Taken), string(b))
		}
		return b, nil
	}
	return nil, io.EOF
}

func (e *LibEnd) Close() error {
	p := e.p
	if !vs.Controlled() {
		return nil
	}
	if p.sendActive > 0 {
		p.overlap("send/close")
	}
	p.closing++
	vs.Yield("pipe close (" + p.opts.Name + ")")
	if p.opts.Monitor {
		vs.Yield("pipe close.2 (" + p.opts.Name + ")")
	}
	p.closing--
	p.CloseCount++
	vs.Note("closed", p.opts.Name, strconv.Itoa(p.CloseCount))
	p.libClosed = true
	p.s2c.closed = true
	if p.opts.Faults && vs.Choose(2, "fault:close") == 1 {
		p.FaultsDone = append(p.FaultsDone, "close")
		return errFault
	}
	return nil
}

// Send delivers a record to the library side. It reports false if the record could not be delivered.
func (e *PeerEnd) Send(b []byte) bool {
	p := e.p
	vs.Yield("peer send")
	if p.c2s.closed {
		return false
	}
	if p.libClosed && p.opts.CloseUnblocksRecv {
		return false // socket closed at the far end
	}
	p.c2s.q = append(p.c2s.q, append([]byte(nil), b...))
	return true
}

// Recv returns the next record the library sent, or false at end of stream.
func (e *PeerEnd) Recv() ([]byte, bool) {
	p := e.p
	vs.Await(func() bool { return len(p.s2c.q) > 0 || p.s2c.closed }, "peer recv")
	if len(p.s2c.q) > 0 {
		b := p.s2c.q[0]
		p.s2c.q = p.s2c.q[1:]
		return b, true
	}
	return nil, false
}

// TryRecv returns a record if one is queued.
func (e *PeerEnd) TryRecv() ([]byte, bool) {
	p := e.p
	if len(p.s2c.q) > 0 {
		b := p.s2c.q[0]
		p.s2c.q = p.s2c.q[1:]
		return b, true
	}
	return nil, false
}

// Close closes the peer's sending direction: the library's Recv sees EOF after draining.
func (e *PeerEnd) Close() {
	vs.Yield("peer close")
	e.p.c2s.closed = true
}

var (
	reMetrics   = regexp.MustCompile(`"metrics":\{[^}]*\}`)
	reStartTime = regexp.MustCompile(`"startTime":"[^"]*"`)
)

// normalizeVolatile removes the process-global counters and the wall-clock start time from an
// rpc.serverInfo result, so that logs are a deterministic function of the schedule
// (Pipe.Out keeps the raw bytes).
func normalizeVolatile(s string) string {
	if !strings.Contains(s, `"startTime"`) && !strings.Contains(s, `"metrics"`) {
		return s
	}
	s = reMetrics.ReplaceAllString(s, `"metrics":{}`)
	return reStartTime.ReplaceAllString(s, `"startTime":"T"`)
}

// ---------------------------------------------------------------------------
// Gates, joins

// Gates are harness flags that handlers wait on.
type Gates struct{ open map[string]bool }

func NewGates() *Gates { return &Gates{open: map[string]bool{}} }
func (g *Gates) Open(k string) {
	g.open[k] = true
}
func (g *Gates) Wait(k string) { vs.Await(func() bool { return g.open[k] }, "gate "+k) }

// Join is a harness-level wait group.
type Join struct{ n int }

func (j *Join) Go(name string, f func()) {
	j.n++
	vs.GoNamed(name, func() {
		defer func() { vs.Yield("join done"); j.n-- }()
		f()
	})
}
func (j *Join) Wait() { vs.Await(func() bool { return j.n == 0 }, "join") }

// ---------------------------------------------------------------------------
// JSON helpers for oracles

// RMsg is a loosely parsed JSON-RPC message member.
type RMsg struct {
	Raw    json.RawMessage
	Fields map[string]json.RawMessage
}

func (m RMsg) Has(k string) bool { _, ok := m.Fields[k]; return ok }
func (m RMsg) Str(k string) string {
	return string(m.Fields[k])
}
func (m RMsg) ID() string { return string(m.Fields["id"]) }
func (m RMsg) ErrCode() (int, bool) {
	var e struct {
		Code *int `json:"code"`
	}
	if !m.Has("error") || json.Unmarshal(m.Fields["error"], &e) != nil || e.Code == nil {
		return 0, false
	}
	return *e.Code, true
}
func (m RMsg) ErrMessage() string {
	var e struct {
		Message string `json:"message"`
	}
	json.Unmarshal(m.Fields["error"], &e)
	return e.Message
}

// parseRecord splits a record into members; isArray reports the envelope shape.
func parseRecord(b []byte) (ms []RMsg, isArray bool, err error) {
	t := bytes.TrimSpace(b)
	if len(t) == 0 {
		return nil, false, errors.New("empty record")
	}
	var raws []json.RawMessage
	if t[0] == '[' {
		isArray = true
		if err := json.Unmarshal(t, &raws); err != nil {
			return nil, true, err
		}
	} else {
		if !json.Valid(t) {
			return nil, false, errors.New("invalid JSON")
		}
		raws = []json.RawMessage{t}
	}
	for _, r := range raws {
		m := RMsg{Raw: r}
		if err := json.Unmarshal(r, &m.Fields); err != nil {
			return nil, isArray, fmt.Errorf("member is not an object: %s", r)
		}
		ms = append(ms, m)
	}
	return ms, isArray, nil
}

// wellFormedResponse checks that m is a valid JSON-RPC 2.0 response object.
func wellFormedResponse(m RMsg) error {
	if string(m.Fields["jsonrpc"]) != `"2.0"` {
		return fmt.Errorf("bad version in %s", m.Raw)
	}
	if !m.Has("id") {
		return fmt.Errorf("no id in %s", m.Raw)
	}
	hasR, hasE := m.Has("result"), m.Has("error")
	if hasR == hasE {
		return fmt.Errorf("need exactly one of result/error in %s", m.Raw)
	}
	for k := range m.Fields {
		switch k {
		case "jsonrpc", "id", "result", "error":
		default:
			return fmt.Errorf("extra key %q in %s", k, m.Raw)
		}
	}
	if hasE {
		var e map[string]json.RawMessage
		if json.Unmarshal(m.Fields["error"], &e) != nil {
			return fmt.Errorf("error is not an object in %s", m.Raw)
		}
		var code json.Number
		d := json.NewDecoder(bytes.NewReader(e["code"]))
		d.UseNumber()
		if d.Decode(&code) != nil {
			return fmt.Errorf("error.code is not a number in %s", m.Raw)
		}
		if _, err := strconv.ParseInt(string(code), 10, 64); err != nil {
			return fmt.Errorf("error.code is not an integer in %s", m.Raw)
		}
		var msg string
		if mm, ok := e["message"]; ok {
			if json.Unmarshal(mm, &msg) != nil {
				return fmt.Errorf("error.message is not a string in %s", m.Raw)
			}
		}
	}
	return nil
}

func jsonEqual(a, b []byte) bool {
	var x, y any
	da := json.NewDecoder(bytes.NewReader(a))
	da.UseNumber()
	db := json.NewDecoder(bytes.NewReader(b))
	db.UseNumber()
	if da.Decode(&x) != nil || db.Decode(&y) != nil {
		return false
	}
	return reflect.DeepEqual(x, y)
}

func errStr(err error) string {
	if err == nil {
		return "<nil>"
	}
	return err.Error()
}

func ctxErrStr(ctx context.Context) string {
	if err := ctx.Err(); err != nil {
		return err.Error()
	}
	return "-"
}

// privLen reads the length of an unexported map/slice/queue field by reflection (no unsafe);
// ok is false if the field does not exist (renamed by an edit): callers then degrade gracefully.
func privLen(obj any, field string) (n int, ok bool) {
	v := reflect.ValueOf(obj)
	for v.Kind() == reflect.Ptr {
		v = v.Elem()
	}
	if v.Kind() != reflect.Struct {
		return 0, false
	}
	f := v.FieldByName(field)
	if !f.IsValid() {
		return 0, false
	}
	switch f.Kind() {
	case reflect.Map, reflect.Slice, reflect.Chan, reflect.String, reflect.Array:
		return f.Len(), true
	}
	return 0, false
}

// privKeys returns the string keys of an unexported map field.
func privKeys(obj any, field string) ([]string, bool) {
	v := reflect.ValueOf(obj)
	for v.Kind() == reflect.Ptr {
		v = v.Elem()
	}
	f := v.FieldByName(field)
	if !f.IsValid() || f.Kind() != reflect.Map {
		return nil, false
	}
	var out []string
	for _, k := range f.MapKeys() {
		if k.Kind() == reflect.String {
			out = append(out, k.String())
		}
	}
	sort.Strings(out)
	return out, true
}

// outRecords returns the payloads of the "out" events of the named pipe with their log index.
type outRec struct {
	At  int
	Raw string
}

func outEvents(x *vs.Exec, name string) []outRec {
	var out []outRec
	for i, e := range x.Log {
		if e.K == "out" && e.Arg(0) == name {
			out = append(out, outRec{i, e.Arg(1)})
		}
	}
	return out
}

func findEv(x *vs.Exec, from int, k string, args ...string) int {
	for i := from; i < len(x.Log); i++ {
		e := x.Log[i]
		if e.K != k {
			continue
		}
		ok := true
		for j, a := range args {
			if a != "*" && e.Arg(j) != a {
				ok = false
				break
			}
		}
		if ok {
			return i
		}
	}
	return -1
}

// generic rules G1/G2 on the outcome.
func genericRules(x *vs.Exec, legitBlocked func(b vs.Blocked) bool) []Viol {
	var v []Viol
	Hit("G1")
	if x.Outcome == "panic" {
		v = append(v, Viol{"G1", "panic: " + firstLine(x.Detail) + " at " + panicSite(x.Stack)})
	}
	// G3: the channel handed to the library is used within its contract in every scenario of every
	// property (a Channel that is safe for one sender only would corrupt or lose messages otherwise)
	Hit("G3")
	for _, e := range x.Log {
		if e.K == "overlap" {
			v = append(v, Viol{"G3", fmt.Sprintf("channel contract broken on %s: %s calls in progress at once (messages on a one-sender channel would be corrupted or lost)", e.Arg(0), e.Arg(1))})
			break
		}
	}
	Hit("G2")
	if x.Outcome == "livelock" {
		v = append(v, Viol{"G2", "livelock: " + firstLine(x.Detail)})
	}
	if x.Outcome == "deadlock" {
		var bl []string
		for _, b := range x.Blocked {
			bl = append(bl, fmt.Sprintf("%s:%s", b.Name, b.Desc))
		}
		v = append(v, Viol{"G2", "deadlock; blocked: " + strings.Join(bl, ", ")})
	} else if x.Outcome == "ok" {
		for _, b := range x.Blocked {
			if legitBlocked == nil || !legitBlocked(b) {
				v = append(v, Viol{"G2", fmt.Sprintf("thread left behind: %s blocked in %s", b.Name, b.Desc)})
			}
		}
	}
	return v
}

func firstLine(s string) string {
	if i := strings.IndexByte(s, '\n'); i >= 0 {
		return s[:i]
	}
	return s
}

// panicSite returns the innermost jrpc2 frame of a panic stack (function name only,
// so that the key is stable under line shifts).
func panicSite(stack string) string {
	lines := strings.Split(stack, "\n")
	var frames []string
	for _, l := range lines {
		if strings.HasPrefix(l, "github.com/creachadair/jrpc2") && !strings.Contains(l, "zzverif") {
			if i := strings.LastIndex(l, "("); i > 0 {
				l = l[:i]
			}
			l = strings.TrimPrefix(l, "github.com/creachadair/jrpc2")
			l = strings.TrimPrefix(l, ".")
			frames = append(frames, l)
			if len(frames) == 3 {
				break
			}
		}
	}
	if len(frames) == 0 {
		return "?"
	}
	return strings.Join(frames, " < ")
}

var _ = jrpc2.Version
