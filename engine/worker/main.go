// Command worker contains every scenario and oracle. It is built by vcheck
// against the instrumented copy of the current /repo tree (go build -overlay)
// and run as a sub-process, one scenario per invocation.
//
//	worker list <prop> <tier>                 JSON list of jobs
//	worker run <prop> <tier> <index> <secs>   explore job <index>, print a Result as JSON
//	worker replay <file>                      re-execute the schedule of a replay file with tracing
package main

import (
	"encoding/json"
	"fmt"
	"os"
	"runtime"
	"strconv"
	"strings"
	"time"

	"verif/vs"
)

// Check is the set of scenarios deciding one property at one tier.
type Check struct {
	Property  string
	Scenarios func(tier string) []*Scenario
}

var registry = map[string]*Check{}

func register(prop string, f func(tier string) []*Scenario) {
	registry[prop] = &Check{Property: prop, Scenarios: f}
}

type jobInfo struct {
	Index      int            `json:"index"`
	Name       string         `json:"name"`
	Bounds     Bounds         `json:"bounds"`
	Params     map[string]any `json:"params,omitempty"`
	MemLimitMB int            `json:"mem_limit_mb,omitempty"`
	Seq        bool           `json:"seq,omitempty"`
}

func fatal(f string, a ...any) {
	fmt.Fprintf(os.Stderr, "worker: "+f+"\n", a...)
	os.Exit(2)
}

func main() {
	runtime.GOMAXPROCS(1)
	if len(os.Args) < 2 {
		fatal("usage")
	}
	switch os.Args[1] {
	case "list":
		c := registry[os.Args[2]]
		if c == nil {
			fatal("unknown property %s", os.Args[2])
		}
		var out []jobInfo
		for i, s := range c.Scenarios(os.Args[3]) {
			out = append(out, jobInfo{Index: i, Name: s.Name, Bounds: s.Bounds, Params: s.Params, MemLimitMB: s.MemLimitMB, Seq: s.Seq != nil})
		}
		json.NewEncoder(os.Stdout).Encode(out)
	case "run":
		c := registry[os.Args[2]]
		if c == nil {
			fatal("unknown property %s", os.Args[2])
		}
		idx, _ := strconv.Atoi(os.Args[4])
		secs, _ := strconv.ParseFloat(os.Args[5], 64)
		scs := c.Scenarios(os.Args[3])
		if idx < 0 || idx >= len(scs) {
			fatal("no job %d", idx)
		}
		if ob := os.Getenv("VS_BOUNDS"); ob != "" { // experiments only: override the scenario's bounds
			var b Bounds
			fmt.Sscanf(ob, "%d,%d,%d", &b.P, &b.F, &b.D)
			scs[idx].Bounds = b
		}
		res := exploreScenario(c.Property, scs[idx], time.Duration(secs*float64(time.Second)))
		json.NewEncoder(os.Stdout).Encode(res)
	case "replay":
		replay(os.Args[2])
	case "porcheck":
		porcheck()
	case "trace": // development aid: the default execution of the first scenario whose name contains the given text
		c := registry[os.Args[2]]
		for _, sc := range c.Scenarios(os.Args[3]) {
			if strings.Contains(sc.Name, os.Args[4]) && sc.New != nil {
				inst := sc.New()
				x := vs.Run(nil, inst.Body)
				fmt.Printf("scenario %s\noutcome %s %s\n", sc.Name, x.Outcome, x.Detail)
				for i, e := range x.Log {
					fmt.Printf("%3d %-10s %v\n", i, e.K, e.A)
				}
				for _, b := range x.Blocked {
					fmt.Printf("blocked %s: %s\n", b.Name, b.Desc)
				}
				for _, v := range inst.Check(x) {
					fmt.Printf("VIOL %s %s\n", v.Rule, v.Msg)
				}
				return
			}
		}
	default:
		fatal("unknown command %s", os.Args[1])
	}
}

func replay(path string) {
	b, err := os.ReadFile(path)
	if err != nil {
		fatal("%v", err)
	}
	var v struct {
		Violation
		Tier string `json:"tier"`
	}
	if err := json.Unmarshal(b, &v); err != nil {
		fatal("%v", err)
	}
	c := registry[v.Property]
	if c == nil {
		fatal("unknown property %s", v.Property)
	}
	var sc *Scenario
	for _, tier := range []string{v.Tier, "quick", "thorough"} {
		if tier == "" {
			continue
		}
		for _, s := range c.Scenarios(tier) {
			if s.Name == v.Scenario {
				sc = s
				break
			}
		}
		if sc != nil {
			break
		}
	}
	if sc == nil {
		fatal("scenario %q not found", v.Scenario)
	}
	if sc.Seq != nil {
		fmt.Printf("sequential check %s: re-running the whole enumeration\n", sc.Name)
		res := exploreScenario(v.Property, sc, 0)
		for _, vi := range res.Violations {
			fmt.Printf("VIOLATION rule=%s input=%q: %s\n", vi.Rule, vi.Input, vi.Msg)
		}
		if len(res.Violations) > 0 {
			os.Exit(1)
		}
		fmt.Println("no violation")
		return
	}
	vs.Tracing = true
	vs.MapOrderChoices = sc.MapOrder
	inst := sc.New()
	x := vs.Run(v.Choices, inst.Body)
	fmt.Printf("scenario %s bounds %s choices %v\n", sc.Name, sc.Bounds, v.Choices)
	for _, l := range x.Trace {
		fmt.Println(l)
	}
	fmt.Println("--- event log")
	for i, e := range x.Log {
		fmt.Printf("%3d %s\n", i, e)
	}
	fmt.Printf("--- outcome: %s %s\n", x.Outcome, x.Detail)
	if x.Stack != "" {
		fmt.Println(x.Stack)
	}
	for _, bl := range x.Blocked {
		fmt.Printf("blocked: T%d(%s) %s\n", bl.ID, bl.Name, bl.Desc)
	}
	viols := inst.Check(x)
	for _, vi := range viols {
		fmt.Printf("VIOLATION rule=%s: %s\n", vi.Rule, vi.Msg)
	}
	if len(viols) > 0 {
		os.Exit(1)
	}
	fmt.Println("no violation on this schedule")
}

// porcheck validates the sleep-set reduction: for small scenarios the set of distinct outcomes with the
// reduction must equal the set without it (both in fine-grained mode, unbounded).
func porcheck() {
	cases := []*Scenario{
		c01Seq([]string{"c"}, 2, Bounds{-1, -1, -1}),
		c01Seq([]string{"n"}, 2, Bounds{-1, -1, -1}),
		c01Seq([]string{"u"}, 2, Bounds{-1, -1, -1}),
		c03Gate("c", 1, Bounds{-1, -1, -1}),
		c11Direct(Bounds{-1, -1, -1}),
		c06Cancel(true, Bounds{-1, -1, -1}),
	}
	bad := 0
	for _, sc := range cases {
		run := func(por bool) (map[string]bool, *Result) {
			res := &Result{Scenario: sc.Name}
			sc2 := *sc
			sc2.POR = por
			e := &explorer{sc: &sc2, prop: "POR", res: res, outcomes: map[string]bool{}, nontriv: map[string]bool{}, maxViol: 5, violKeys: map[string]bool{}, fine: true, keys: map[string]bool{}}
			e.deadline = time.Now().Add(10 * time.Minute)
			ruleHits = map[string]int{}
			e.explore(nil)
			ruleHits = nil
			return e.keys, res
		}
		t0 := time.Now()
		full, r1 := run(false)
		t1 := time.Since(t0)
		t0 = time.Now()
		red, r2 := run(true)
		t2 := time.Since(t0)
		same := len(full) == len(red)
		for k := range full {
			if !red[k] {
				same = false
			}
		}
		status := "EQUAL"
		if r1.Capped || r2.Capped || r1.EngineError != "" || r2.EngineError != "" {
			status = "INCOMPLETE " + r1.EngineError + r2.EngineError
		} else if !same {
			status = "DIFFERENT"
			bad++
		}
		fmt.Printf("%-60s unreduced: %d execs %d outcomes %.1fs | reduced: %d execs (+%d sleep-blocked) %d outcomes %.1fs | %s\n", sc.Name, r1.Execs, len(full), t1.Seconds(), r2.Execs, r2.SleepBlocked, len(red), t2.Seconds(), status)
		if !same && status == "DIFFERENT" {
			n := 0
			for k := range full {
				if !red[k] && n < 3 {
					fmt.Printf("   missing with reduction: %.300s\n", k)
					n++
				}
			}
		}
	}
	if bad > 0 {
		os.Exit(1)
	}
}
