package main

import (
	"context"
	"fmt"
	"strconv"
	"strings"

	"github.com/creachadair/jrpc2"
	"verif/vs"
)

// ---------------------------------------------------------------------------
// Message-sequence scenarios for a Server on a Pipe with a raw scripted peer.
//
// A message spec is a token: "c" call, "n" notification, "f" call whose handler
// fails, "u" call to an unknown method, "v" notification to an unknown method,
// "x" invalid member carrying an id (bad version), "y" invalid member without id,
// "i" rpc.serverInfo call, "d" call with the id of the first call of the sequence
// (duplicate), "g"/"h" gated call / notification, "q"/"p" call / notification whose
// handler awaits a Callback with its own context, "z" notification with an explicit
// "id":null, "e" notification whose handler fails with a protocol error code; "[..]" wraps members
// into a batch.

type memberSpec struct {
	Kind   byte
	Msg    int    // index of the inbound message
	Pos    int    // position inside the message
	ID     string // JSON id text, "" for notifications / id-less
	Method string
	JSON   string
}

type msgSpec struct {
	Batch   bool
	Members []*memberSpec
	JSON    string
}

func (m *memberSpec) isCall() bool { return strings.IndexByte("cfuidgq", m.Kind) >= 0 }
func (m *memberSpec) isNote() bool {
	return m.Kind == 'n' || m.Kind == 'v' || m.Kind == 'h' || m.Kind == 'p' || m.Kind == 'z' || m.Kind == 'e'
}
func (m *memberSpec) hasHandler() bool { return strings.IndexByte("cfndghpqze", m.Kind) >= 0 }

// buildSeq turns tokens into concrete messages with fresh ids.
func buildSeq(tokens []string) []*msgSpec {
	var out []*msgSpec
	nextID := 1
	firstCallID := ""
	for mi, tok := range tokens {
		ms := &msgSpec{}
		body := tok
		if strings.HasPrefix(tok, "[") {
			ms.Batch = true
			body = strings.Trim(tok, "[]")
		}
		var parts []string
		for pi := 0; pi < len(body); pi++ {
			k := body[pi]
			m := &memberSpec{Kind: k, Msg: mi, Pos: pi}
			name := fmt.Sprintf("%c%d_%d", k, mi, pi)
			switch k {
			case 'c', 'f', 'g', 'q':
				m.ID = strconv.Itoa(nextID)
				nextID++
				m.Method = name
				m.JSON = fmt.Sprintf(`{"jsonrpc":"2.0","id":%s,"method":%q}`, m.ID, m.Method)
				if firstCallID == "" {
					firstCallID = m.ID
				}
			case 'd':
				m.ID = firstCallID
				if m.ID == "" {
					m.ID = "1"
				}
				m.Method = name
				m.JSON = fmt.Sprintf(`{"jsonrpc":"2.0","id":%s,"method":%q}`, m.ID, m.Method)
			case 'n', 'h', 'p', 'e': // 'e': a notification whose handler fails with the InvalidRequest / ParseError code
				m.Method = name
				m.JSON = fmt.Sprintf(`{"jsonrpc":"2.0","method":%q}`, m.Method)
			case 'z': // a notification spelled with an explicit null id
				m.Method = name
				m.JSON = fmt.Sprintf(`{"jsonrpc":"2.0","id":null,"method":%q}`, m.Method)
			case 'u':
				m.ID = strconv.Itoa(nextID)
				nextID++
				m.Method = "unknown." + name
				m.JSON = fmt.Sprintf(`{"jsonrpc":"2.0","id":%s,"method":%q}`, m.ID, m.Method)
			case 'v':
				m.Method = "unknown." + name
				m.JSON = fmt.Sprintf(`{"jsonrpc":"2.0","method":%q}`, m.Method)
			case 'x':
				m.ID = strconv.Itoa(nextID)
				nextID++
				m.Method = name
				m.JSON = fmt.Sprintf(`{"jsonrpc":"1.0","id":%s,"method":%q}`, m.ID, m.Method)
			case 'y':
				m.Method = name
				m.JSON = fmt.Sprintf(`{"jsonrpc":"1.0","method":%q}`, m.Method)
			case 'i':
				m.ID = strconv.Itoa(nextID)
				nextID++
				m.Method = "rpc.serverInfo"
				m.JSON = fmt.Sprintf(`{"jsonrpc":"2.0","id":%s,"method":"rpc.serverInfo"}`, m.ID)
			default:
				panic("bad token " + tok)
			}
			ms.Members = append(ms.Members, m)
			parts = append(parts, m.JSON)
		}
		if ms.Batch {
			ms.JSON = "[" + strings.Join(parts, ",") + "]"
		} else {
			ms.JSON = parts[0]
		}
		out = append(out, ms)
	}
	return out
}

// anyAssigner maps every method not starting with "unknown." to one handler.
type anyAssigner struct{ h jrpc2.Handler }

func (a anyAssigner) Assign(ctx context.Context, method string) jrpc2.Handler {
	if strings.HasPrefix(method, "unknown.") {
		return nil
	}
	return a.h
}

// seqHarness is the per-execution state of a message-sequence scenario.
type seqHarness struct {
	msgs    []*msgSpec
	gates   *Gates
	tok     int
	entered map[string]bool
	srv     *jrpc2.Server
	pipe    *Pipe
	peer    *PeerEnd
	baseCtx bool // the scenario ends the server's base context: requests that had not started need not run
}

// stdHandler logs h_enter / h_exit around a scheduling point and returns a
// unique token so that a response can be tied to exactly one invocation.
// Methods starting with 'g' or 'h' wait on the gate named after the method.
func (h *seqHarness) handler() jrpc2.Handler {
	return func(ctx context.Context, req *jrpc2.Request) (any, error) {
		h.tok++
		tok := "tok" + strconv.Itoa(h.tok)
		vs.Event("h_enter", req.Method(), req.ID(), tok)
		if h.entered == nil {
			h.entered = map[string]bool{}
		}
		h.entered[req.Method()] = true
		if m := req.Method(); m[0] == 'g' || m[0] == 'h' {
			h.gates.Wait(m)
		}
		if m := req.Method(); m[0] == 'p' || m[0] == 'q' {
			// the handler awaits a server-to-client callback with its own context (push-enabled servers)
			rsp, err := jrpc2.ServerFromContext(ctx).Callback(ctx, "cb."+m, nil)
			vs.Yield("callback-ret")
			if err != nil {
				vs.Note("cb_ret", m, "err", err.Error())
			} else {
				vs.Note("cb_ret", m, "ok", rsp.ResultString())
			}
		}
		// the context is observed atomically with the log append (arguments evaluated after the scheduling point)
		vs.Yield("h_exit")
		if req.Method()[0] == 'e' {
			vs.Note("h_exit", req.Method(), req.ID(), tok, ctxErrStr(ctx), "error")
			if h.tok%2 == 0 {
				return nil, fmt.Errorf("wrapped: %w", jrpc2.Errorf(jrpc2.ParseError, "refused %s", tok))
			}
			return nil, jrpc2.Errorf(jrpc2.InvalidRequest, "refused %s", tok)
		}
		if req.Method()[0] == 'f' {
			vs.Note("h_exit", req.Method(), req.ID(), tok, ctxErrStr(ctx), "error")
			return nil, jrpc2.Errorf(jrpc2.Code(77), "failed %s", tok)
		}
		vs.Note("h_exit", req.Method(), req.ID(), tok, ctxErrStr(ctx), "ok")
		return tok, nil
	}
}

func tokensName(tokens []string) string { return strings.Join(tokens, " ") }
