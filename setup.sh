#!/bin/sh
# Builds the driver offline and warms the Go build cache (instrument + build the worker once).
set -e
cd "$(dirname "$0")"
export GOFLAGS=-mod=mod GOPROXY=off GOSUMDB=off GOTOOLCHAIN=local CGO_ENABLED=0
mkdir -p bin evidence replays
(cd engine && go build -o ../bin/vcheck ./cmd/vcheck)
./bin/vcheck warm
