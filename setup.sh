#!/bin/sh
# Builds the driver offline and warms the Go build cache (instrument + build the worker once).
set -e
cd "$(dirname "$0")"
export GOFLAGS=-mod=mod GOPROXY=off GOSUMDB=off GOTOOLCHAIN=local CGO_ENABLED=0
mkdir -p bin evidence replays
(cd engine && go build -o ../bin/vcheck ./cmd/vcheck)
./bin/vcheck warm
# engine self-tests (litmus outcome sets) and a first build of the -race workloads, so that checks hit the cache
(cd engine && go test -count=1 ./vs/ >/dev/null 2>&1 || echo "WARNING: engine self-tests failed")
(cd engine && CGO_ENABLED=1 go test -race -count=1 -run XXX ./racepass/ >/dev/null 2>&1 || echo "WARNING: race pass does not build (CGO missing?); checks will record that it could not run")
