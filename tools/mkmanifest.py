#!/usr/bin/env python3
"""Generates /verif/MANIFEST.json from the table below (kept next to the checks so it stays current)."""
import json, os
HERE = os.path.dirname(os.path.dirname(os.path.abspath(__file__)))
E1 = "exhaustive schedule exploration of the instrumented real code (stateless model checking, <p,f,d>-bounded DFS under a cooperative scheduler)"
E2 = "bounded-exhaustive input / operation-sequence enumeration of the real functions against a reference model"
CHECKS = {
 # id: (technique, level text, level note, design ref)
 "C03": (E1, "All schedules within the stated preemption / free-switch / environment-deviation budgets of closed scenarios (server + raw peer + optional Cancel/Stop/Notify thread) are executed on the real code; the ordering oracle runs on every complete execution, so 'for all interleavings' becomes a counted, exhausted set.", "vs shims faithful to sync/channel semantics; data-race freedom; bounds as reported per scenario", "DESIGN.md §5 C03"),
 "C08": (E1, "Every schedule within the budgets of scenarios {traffic} x {Stop, peer close, injected failure at each channel operation, two causes} x {stepped, free-running} x {Close unblocks Recv or not} x {records after the stop} runs on the real server; panics, deadlocks, leaked threads, status, context cancellation, notification hand-off, leftover state and restart are checked on each.", "vs shims faithful; data-race freedom; the peer closes its end after seeing EOF; bounds as reported per scenario", "DESIGN.md §5 C08"),
 "C01": (E1, "Every message sequence of length 1-2 (thorough: 3 over a sub-alphabet) over a 16-letter alphabet of single/batch/call/notification/invalid/duplicate/unknown members, under every schedule within the budgets; exactly-once, correlation by token, array shape, order, after-all-handlers and silence-at-quiescence are judged on each execution.", "vs shims faithful; data-race freedom; alphabets and bounds as reported", "DESIGN.md §5 C01"),
 "C06": (E1, "N in 1..3 slots, 1..N+2 gated calls as one batch or single messages (optionally with rpc.serverInfo); a controller opens gates in every order (free explorer choice) and the running set is compared with min(N, unfinished) at every quiescent point and with N at every handler entry, under every schedule within the budgets; cancellation-while-waiting and the Concurrency<1 option mapping included.", "vs shims faithful; quiescence is exact under the cooperative scheduler; bounds as reported", "DESIGN.md §5 C06"),
 "C07": (E1, "All stepped histories up to length 3 (thorough 5) over {call(id in {1,2}, method in slow/fast/err/unknown/rpc.*), in-batch duplicate, CancelRequest(1,2,3), release, Stop, base-context end} are enumerated (the operation is a free explorer choice), each under every schedule within the budgets, and every reply, handler context observation and reserved-id snapshot is compared with a reference model of 'ids in flight'.", "vs shims faithful; reserved ids read by reflection from Server.used (degrades to reply-level rules if renamed)", "DESIGN.md §5 C07"),
 "C04": (E1, "2-3 concurrent Calls or one Batch[call,note,call] against a raw peer whose reply stream is enumerated: every permutation of the replies (scenario parameter) x every grouping into arrays/objects x one noise item (duplicate, unknown id, bad version, no id, notification, callback request with the same id text, string/float id) at every position (free explorer choices), each under every schedule within the budgets of reader, per-message delivery goroutines and callers.", "vs shims faithful; data-race freedom; bounds as reported", "DESIGN.md §5 C04"),
 "C05": (E1, "One operation (Call, CallResult, Batch, Notify) and 1-3 events from {reply, cancel, deadline, Close, peer EOF, Recv error, malformed record, Send fault, server callback}, every start order a scenario, every schedule within the budgets; exactly-once return, admissibility of the result w.r.t. the causes that had occurred, OnCancel/OnStop counts, Close-after-callbacks, nothing pending, no thread left.", "vs shims faithful; the peer closes its end after seeing EOF; deadline context implements AfterFunc so no hidden goroutine exists", "DESIGN.md §5 C05"),
 "C09": (E1, "Outside, handler-issued and notification-handler-issued Callbacks / Notify against a raw peer whose answers are scripted (in order, reversed, batched, duplicated, unsolicited, error, late after context end, none), with context cancellation, Stop, and the peer's own call using the colliding id 1, under every schedule within the budgets.", "vs shims faithful; bounds as reported", "DESIGN.md §5 C09"),
 "C10": (E1, "A monitor inside the harness channel adds a scheduling point between entry and exit of Send/Recv/Close, so any two calls the library does not mutually exclude are observed overlapping in some explored schedule; server (batches, parse error, Notify, Callback, Stop, restart) and client (callers, callback reply, Close) workloads.", "vs shims faithful; workloads as listed; bounds as reported", "DESIGN.md §5 C10"),
 "C11": (E2, "Every record sequence of length <=2 (thorough 3) over a per-framing alphabet of legal records is sent through the real Send (pipelined) and read back under every cut set of <=k cuts (k by stream length), one-byte reads, and EOF delivered with or after the last chunk; size sequences over {0,1,4095,4096,4097,64Ki,1Mi,1Mi+1,3Mi}; split-byte guard on every record <=4 over {a,split}; channel.Direct under the scheduler (all interleavings in the thorough tier).", "encoding/json and bufio trusted; alphabets and cut bounds as reported", "DESIGN.md §5 C11"),
 "C12": (E2, "Every byte string <=7 (thorough 9) over {a,b,split,CR} for Split/Line, every token string <=4 (thorough 5) over a 21-token header alphabet (including absurd and overflowing lengths) with three suffixes for the four header framings, every string <=5 (6) over the JSON punctuation alphabet for RawJSON, plus every truncation / single-byte substitution of valid header streams; each under <=1 cut, one-byte reads and both EOF placements; compared with three-valued reference decoders (must-yield / must-fail / unspecified) written from the package documentation. Runs in sub-processes under a fixed address-space limit; a dead worker is a violation carrying the announced input.", "reference decoders encode only what the documentation states (unspecified inputs are judged for no-panic / no-fabrication only)", "DESIGN.md §5 C12"),
 "C02": (E2, "Every record of the product of per-field variants (6 versions x 13 ids x 10 methods x 9 params x 6 extra fields = 42120 members, as object and as one-element array), all ordered pairs of 30 class representatives as batches, and every byte string <=4 (thorough 5) over an 11-character JSON alphabet, each for a plain and a push-enabled server, is fed to a real Server under the cooperative scheduler (so 'no output' is decided at a sound quiescent point), followed by a liveness probe; members with >=2 defects are run under every iteration order of the member parser's map. Output is compared with an independently written classifier.", "default schedule only (the property quantifies over inputs); classifier treats reply-shaped members with further defects as unspecified on push-enabled servers", "DESIGN.md §5 C02"),
 "C13": (E2, "Every method name of <=2 runes over 14 special runes (thorough: every single rune U+0000..U+10FFFF), 84 values of depth <=2 as Go values and as pre-encoded raw JSON with white space at every token boundary, ids of every JSON type, error objects with data: emitted through Client.Notify/Call/Batch, Server responses / error responses / Notify, and Response.MarshalJSON, captured on a raw channel and judged by an independent strict JSON tokenizer, a round trip through ParseRequests and every framing's Send. ParseRequests itself on every C02 input against the C02 classifier.", "encoding/json trusted for value comparison only (the validator is separate); default schedule", "DESIGN.md §5 C13"),
 "C14": (E2, "Every error built from the user-facing constructors (*Error x 33 codes x 3 messages x 6 data values; Errorf, Code.Err, custom coders, coders wrapping other errors, *Error, context sentinels and plain errors under 7 wrapper shapes of depth <=2) is returned by a handler of a real Server and observed at Client.Call; unmarshalable results; ErrorCode(c.Err())==c for c in [-70000,70000] and both int32 ends (thorough: every int32); WithData on every receiver/data combination. ErrorCode is additionally compared with its documented definition written independently.", "default schedule; errors.As/Is trusted", "DESIGN.md §5 C14"),
 "C17": (E2, "Every method name of length 1..4 (thorough 1..6) over {a,b,.,r,p,c,R,e-acute}, rpc.* names, rpc.serverInfo neighbours and one-edit neighbours of every registered name, called through a real Server for three assigners (Map on every boundary key; ServiceMap of depth 2 and 3 with empty, dotted and rpc service keys) and both DisableBuiltin settings; compared with a reference resolver written from the documentation; InboundRequest / ServerFromContext identities, Names() and rpc.serverInfo content.", "default schedule", "DESIGN.md §5 C17"),
 "C15": (E2, "Function values generated with reflect.FuncOf/MakeFunc over 29 parameter types (scalars, slice, map, array, any, RawMessage, 9 struct shapes - tagged, json:\"-\", embedded tagged/untagged, unexported, nested, with a DisallowUnknownFields method - and pointers to each) x 5 result schemes x prescribed success/failure x SetStrict {off,on} x AllowArray {default,false,true} x 30 params texts, plus no-parameter and *jrpc2.Request forms; every call of the produced wrapper is compared with encoding/json decoding into the declared type after the documented array-to-field mapping. Rejection grammar: hand-written and generated non-conforming shapes.", "encoding/json and reflect trusted", "DESIGN.md §5 C15"),
 "C16": (E2, "Positional/NewPos for arities 0..6 (every kind tuple up to arity 2, thorough 3, over 7 argument kinds; one representative above): exact-length arrays with null / wrong type at each index, n-1 and n+1 elements, objects over every subset of the names, unknown key, wrong value type, scalars, absent params; bad name lists; Args with every nil-slot mask and lengths n-1..n+1; Obj with every subset of keys present over value, slice, map and pointer targets.", "encoding/json and reflect trusted", "DESIGN.md §5 C16"),
}
ALL = [json.loads(l)["id"] for l in open(os.path.join(HERE, "properties.jsonl"))]
PENDING = "check not built yet (work in progress in the order of DESIGN.md §10); nothing is claimed for it"
m = {
 "version": 1,
 "setup_cmd": "./setup.sh",
 "hooks": {
  "guard": "overlay-only: instrumentation is generated from the current /repo tree at check time (go build -overlay); no hook is committed to /repo",
  "enable": "bin/vcheck instruments /repo into a scratch directory and builds the worker with `go build -overlay`",
  "baseline_off_cmd": "cd /repo && GOFLAGS=-mod=mod GOPROXY=off GOSUMDB=off GOTOOLCHAIN=local go test -vet=off -count=1 ./...",
  "source_commits": [],
  "add_only": True,
 },
 "engines": [
  {"name": "E1", "path": "engine/vs engine/instr engine/worker/explore.go", "serves_properties": [], "kind_free_text": E1},
  {"name": "E2", "path": "engine/worker (Seq scenarios)", "serves_properties": [], "kind_free_text": E2},
 ],
 "checks": [],
 "not_applicable": [],
 "notes": "Every check: `bin/vcheck run <id> --tier <tier>` instruments the current /repo working tree, builds the worker against it, explores, rewrites evidence/<id>.json. Exit 0 = held on everything explored, 1 = VIOLATION line(s), 2 = engine error (never a verdict). known_findings.json lists recorded/fixed genuine defects.",
}
for pid in ALL:
    if pid in CHECKS:
        tech, text, note, ref = CHECKS[pid]
        m["checks"].append({
            "property_id": pid,
            "quick_cmd": f"bin/vcheck run {pid} --tier quick",
            "thorough_cmd": f"bin/vcheck run {pid} --tier thorough",
            "evidence_file": f"/verif/evidence/{pid}.json",
            "replay_cmd_template": "bin/vcheck replay {path}",
            "engine": "E1" if tech == E1 else "E2",
            "level_claimed": {"category": "model_checking", "text": text, "design_ref": ref},
            "level_note": note,
            "technique": tech,
        })
        m["engines"][0 if tech == E1 else 1]["serves_properties"].append(pid)
    else:
        m["not_applicable"].append({"property_id": pid, "reason": PENDING})
json.dump(m, open(os.path.join(HERE, "MANIFEST.json"), "w"), indent=1)
print("claimed:", [c["property_id"] for c in m["checks"]])
