#!/usr/bin/env python3
# usage: tools/mkmeta.py <seed-dir-name> <prop> <missed:yes|no> <breaks> <needs> <demo> <caught_by> [strengthening]
import json,sys,subprocess
name,prop,missed,breaks,needs,demo,caught=sys.argv[1:8]
strength=sys.argv[8] if len(sys.argv)>8 else "none"
base=subprocess.run(["git","-C","/repo","rev-parse","--short","HEAD"],capture_output=True,text=True).stdout.strip()
d={"property":prop,"breaks":breaks,"needs":needs,"demo":demo,"initially_missed":missed=="yes","strengthening":strength,
   "caught_by":caught,"source":"independent sub-agent (given only the property text and a scratch worktree)",
   "ran":["tools/seedcheck.sh (scratch git worktree of /repo HEAD): go build ./...; go test -vet=off -count=1 ./... twice (pass); demo without the change (pass) and with it (fail); bin/vcheck run %s --tier quick --repo <worktree>"%prop],
   "base_commit":base}
json.dump(d,open("/verif/seeded/%s/meta.json"%name,"w"),indent=1)
print("wrote",name)
