#!/usr/bin/env python3
"""usage: mkmutant.py <name> <file> <<< 'OLD\n====\nNEW'   -> writes mutants/<name>.diff (unified diff against /repo HEAD)"""
import sys, subprocess, tempfile, os, shutil
name, rel = sys.argv[1], sys.argv[2]
old, new = sys.stdin.read().split("\n====\n")
new = new.rstrip("\n")
old = old.strip("\n")
src = open(os.path.join("/repo", rel)).read()
assert src.count(old) == 1, f"old text occurs {src.count(old)} times"
d = tempfile.mkdtemp()
a = os.path.join(d, "a", rel); b = os.path.join(d, "b", rel)
os.makedirs(os.path.dirname(a)); os.makedirs(os.path.dirname(b))
open(a, "w").write(src); open(b, "w").write(src.replace(old, new))
p = subprocess.run(["diff", "-u", os.path.join("a", rel), os.path.join("b", rel)], cwd=d, capture_output=True, text=True)
out = os.path.join("/verif/mutants", name + ".diff")
open(out, "w").write(p.stdout)
shutil.rmtree(d)
print("wrote", out)
