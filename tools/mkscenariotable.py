#!/usr/bin/env python3
# Regenerates the table of DESIGN.md section 11.7 from `worker list` (scenario sets and bounds per tier).
import json,subprocess,os,collections,re
env=dict(os.environ,GOFLAGS='-mod=mod',GOPROXY='off',GOSUMDB='off',GOTOOLCHAIN='local')
wk='/tmp/wk-list'
subprocess.run(['go','build','-o',wk,'./worker'],cwd='/verif/engine',env=env,check=True)
def b(x):
    f=lambda v:'inf' if v<0 else str(v)
    return '<%s,%s,%s>'%(f(x['p']),f(x['f']),f(x['d']))
rows=[]
for i in range(1,21):
    pid='C%02d'%i
    cells=[]
    for tier in ('quick','thorough'):
        js=json.loads(subprocess.run([wk,'list',pid,tier],capture_output=True,text=True,env=env).stdout)
        nseq=sum(1 for j in js if j.get('seq'))
        cnt=collections.Counter(b(j['bounds']) for j in js if not j.get('seq'))
        parts=['%d×%s'%(n,k) for k,n in cnt.most_common()]
        s='%d scenarios'%len(js)
        if nseq: s+=' (%d input-enumeration)'%nseq
        if parts: s+=': '+', '.join(parts)
        cells.append(s)
    rows.append('| %s | %s | %s |'%(pid,cells[0],cells[1]))
os.remove(wk)
p='/verif/DESIGN.md'
s=open(p).read()
a=s.index('| property | quick tier | thorough tier |')
e=s.index('\n---\n',a)
s=s[:a]+'| property | quick tier | thorough tier |\n|---|---|---|\n'+'\n'.join(rows)+'\n'+s[e:]
open(p,'w').write(s)
print('\n'.join(rows))
