#!/bin/sh
# usage: tools/mutant.sh <patch.diff> <prop> [tier] [extra vcheck flags]
# Applies the patch to a scratch copy of /repo (never /repo itself), runs the repository's own
# tests there, then the named check against the copy. Prints a one-line summary.
set -u
patch=$(readlink -f "$1"); prop=$2; tier=${3:-quick}; shift; shift; [ $# -gt 0 ] && shift
export GOFLAGS=-mod=mod GOPROXY=off GOSUMDB=off GOTOOLCHAIN=local
d=$(mktemp -d /tmp/mut.XXXXXX)
trap 'rm -rf "$d"' EXIT
cp -r /repo "$d/repo"
cd "$d/repo" || exit 2
if ! git apply "$patch" 2>"$d/apply.err"; then echo "MUTANT $(basename $patch): patch does not apply: $(cat $d/apply.err)"; exit 2; fi
if ! go build ./... >"$d/build.log" 2>&1; then echo "MUTANT $(basename $patch): does not compile"; cat "$d/build.log"; exit 2; fi
if go test -vet=off -count=1 ./... >"$d/test.log" 2>&1; then tests=pass; else tests=FAIL; fi
cd /verif
VERIF_DIR=/verif bin/vcheck run "$prop" --tier "$tier" --repo "$d/repo" "$@" >"$d/check.log" 2>&1
rc=$?
echo "MUTANT $(basename $patch) prop=$prop tier=$tier: repo-tests=$tests check-exit=$rc $(grep -c '^VIOLATION' $d/check.log) violation line(s)"
grep -E 'rule=|ENGINE|vcheck:' "$d/check.log" | head -5
[ "$tests" = FAIL ] && grep -E '^(--- FAIL|FAIL|panic)' "$d/test.log" | head -5
exit 0
