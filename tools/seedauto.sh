#!/bin/sh
# usage: auto.sh ROUNDDIR PROP SUFFIX  -> runs seedcheck with autodetected demo/pkg/pattern
r=$1; p=$2; suf=$3; sd=$r/$p/wt/_seed
demo=$(ls $sd/*_test.go | head -1); demo=$(basename $demo)
pk=$(grep -m1 '^package ' $sd/$demo | awk '{print $2}')
case $pk in jrpc2*) pkg=.;; channel*) pkg=channel;; handler*) pkg=handler;; server*) pkg=server;; jhttp*) pkg=jhttp;; *) pkg=.;; esac
pat=$(grep -o '^func Test[A-Za-z0-9_]*' $sd/$demo | awk '{print $2}' | tr '\n' '|' | sed 's/|$//')
cd /verif; tools/seedcheck.sh $sd ${p}$suf $p $demo $pkg "^($pat)\$" > $r/$p.out 2>&1
head -3 $r/$p.out | cut -c1-330
