#!/bin/sh
# usage: tools/seedcheck.sh <seed-src-dir> <name> <prop> <demo-file> <pkg-dir-rel> <run-pattern> [tier]
# Confirms a seeded change in a scratch worktree of /repo (never /repo itself):
#   compiles, repository tests pass with it, demo fails with it and passes without it;
# then runs the property's check against the changed tree and files everything under /verif/seeded/<name>/.
set -u
src=$1; name=$2; prop=$3; demo=$4; pkg=$5; pat=$6; tier=${7:-quick}
export GOFLAGS=-mod=mod GOPROXY=off GOSUMDB=off GOTOOLCHAIN=local
out=/verif/seeded/$name
mkdir -p "$out"
cp "$src/patch.diff" "$out/patch.diff"
cp "$src/$demo" "$out/" 2>/dev/null
[ -f "$src/NOTES.md" ] && cp "$src/NOTES.md" "$out/AGENT_NOTES.md"
wt=$(mktemp -d /tmp/seedwt.XXXXXX); rmdir "$wt"
git -C /repo worktree add -q --detach "$wt" HEAD || exit 2
trap 'git -C /repo worktree remove --force "$wt" >/dev/null 2>&1; rm -rf "$wt"' EXIT
cd "$wt"
# demo without the change
mkdir -p "$wt/$pkg"; cp "$src/$demo" "$wt/$pkg/"
go test -vet=off -count=1 -run "$pat" "./$pkg" >"$out/demo_without.log" 2>&1; dw=$?
if ! git apply "$out/patch.diff" 2>"$out/apply.err"; then echo "SEED $name: patch does not apply to current HEAD: $(head -3 $out/apply.err)"; exit 2; fi
rm -f "$out/apply.err"
go test -vet=off -count=1 -run "$pat" "./$pkg" >"$out/demo_with.log" 2>&1; dc=$?
rm -f "$wt/$pkg/$(basename $demo)"
if ! go build ./... >"$out/build.log" 2>&1; then echo "SEED $name: does not compile"; exit 2; fi
rm -f "$out/build.log"
tests=pass
for i in 1 2; do go test -vet=off -count=1 ./... >"$out/repo_tests.log" 2>&1 || tests=FAIL; done
cd /verif
bin/vcheck run "$prop" --tier "$tier" --repo "$wt" >"$out/check_$prop.log" 2>&1; rc=$?
nv=$(grep -c '^VIOLATION' "$out/check_$prop.log")
echo "SEED $name prop=$prop: repo-tests=$tests demo-without-exit=$dw demo-with-exit=$dc check($tier)-exit=$rc violations=$nv"
grep -E 'rule=|ENGINE|vcheck:' "$out/check_$prop.log" | head -4
