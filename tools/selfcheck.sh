#!/bin/sh
# Regression suite for the machinery itself: every mutant in mutants/ and every seed in seeded/
# must be reported by the check it is filed under (property = the Cnn at the start of its name),
# and every check must pass on the unchanged tree. Works on a private copy of /verif so that the
# live directory can be edited meanwhile. Prints one line per case and a summary.
set -u
src=${1:-/verif}
work=$(mktemp -d /tmp/selfcheck.XXXXXX)
trap 'rm -rf "$work"' EXIT
export GOFLAGS=-mod=mod GOPROXY=off GOSUMDB=off GOTOOLCHAIN=local
rsync -a --exclude .git --exclude bin --exclude replays "$src/" "$work/verif/"
cd "$work/verif" && mkdir -p bin && (cd engine && go build -o ../bin/vcheck ./cmd/vcheck) || exit 2
export VERIF_DIR="$work/verif"
miss=0; total=0
run_case() { # name patch prop
  name=$1; patch=$2; prop=$3
  d=$(mktemp -d "$work/m.XXXXXX"); cp -r /repo "$d/repo"; rm -rf "$d/repo/.git"
  (cd "$d/repo" && patch -p1 -s < "$patch") || { echo "CASE $name: patch does not apply"; miss=$((miss+1)); rm -rf "$d"; return; }
  # first without the free-running race pass (faster); a case that is not reported that way is run again with it
  VERIF_RACEPASS=0 bin/vcheck run "$prop" --tier quick --repo "$d/repo" > "$d/log" 2>&1; rc=$?
  if [ $rc -ne 1 ]; then bin/vcheck run "$prop" --tier quick --repo "$d/repo" > "$d/log" 2>&1; rc=$?; fi
  total=$((total+1))
  if [ $rc -eq 1 ]; then echo "CASE $name ($prop): detected ($(grep -c '^VIOLATION' $d/log) violation lines)"; else echo "CASE $name ($prop): NOT DETECTED rc=$rc"; miss=$((miss+1)); tail -3 "$d/log"; fi
  rm -rf "$d"
}
# optional sharding: SHARD=i/n runs every n-th case starting at i (cases are numbered in listing order)
shard_i=0; shard_n=1
if [ -n "${SHARD:-}" ]; then shard_i=${SHARD%/*}; shard_n=${SHARD#*/}; fi
idx=0
pick() { idx=$((idx+1)); [ $((idx % shard_n)) -eq $shard_i ]; }
# optional name filter: ONLY=<extended regex> keeps the cases whose file or directory name matches
match() { [ -z "${ONLY:-}" ] || echo "$1" | grep -Eq "$ONLY"; }
for m in mutants/*.diff; do
  match "$(basename $m)" || continue
  pick || continue
  prop=$(basename "$m" | cut -c1-3 | tr c C)
  run_case "$(basename $m .diff)" "$PWD/$m" "$prop"
done
for s in seeded/*/; do
  match "$(basename $s)" || continue
  pick || continue
  n=$(basename "$s"); prop=$(echo "$n" | cut -c1-3)
  [ -f "$s/PROPERTY" ] && prop=$(cat "$s/PROPERTY") # a change filed under one property but reported by the check of another
  run_case "seed:$n" "$PWD/$s/patch.diff" "$prop"
done
bad=0
[ -n "${SKIPBASE:-}" ] || for p in C01 C02 C03 C04 C05 C06 C07 C08 C09 C10 C11 C12 C13 C14 C15 C16 C17 C18 C19 C20; do
  bin/vcheck run $p --tier quick > "$work/base.log" 2>&1; rc=$?
  if [ $rc -ne 0 ]; then echo "BASE $p: rc=$rc"; tail -3 "$work/base.log"; bad=$((bad+1)); fi
done
echo "SUMMARY cases=$total not-detected=$miss unchanged-tree-failures=$bad"
